--------------------------- MODULE MCGenMapEntry ---------------------------
(* Exhaustive exploration of GenMapEntry over every entry payload of a bounded alphabet (one state per payload, tail and kind pair). *)
EXTENDS GenMapEntry

CONSTANTS Alphabet, MaxLen, Bounded

VARIABLES payload, tail, kinds
vars == <<payload, tail, kinds>>

Payloads == UNION { [1..n -> Alphabet] : n \in 0..MaxLen }
Init == payload \in Payloads /\ tail \in Tails /\ kinds \in Kinds
Next == UNCHANGED vars
Spec == Init /\ [][Next]_vars

Impl == ImplOf(payload, tail, kinds, Bounded)
Ref  == RefOf(payload, kinds)
Sound    == SoundFor(Impl, Ref)
Complete == CompleteFor(Impl, Ref)
Lands    == LandsFor(Impl, payload)
\* not vacuous (expected violation): some full-length entry followed by another field is accepted with a non-default key and value
Witness  == ~(Impl.ok /\ Len(payload) = MaxLen /\ tail # <<>> /\ Impl.k # ZeroOf(kinds[1]) /\ Impl.v # ZeroOf(kinds[2]))
=============================================================================
