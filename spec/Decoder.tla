------------------------------ MODULE Decoder ------------------------------
(***************************************************************************)
(* Requirement-level specification of csproto.Decoder (C01, C02, C03, C19).*)
(*                                                                         *)
(* The decoder's whole state is (buf, off, mode).  For a call `op` with    *)
(* arguments `e` at cursor p, RefItem classifies the bytes at the cursor:  *)
(*   must   : well formed for this call; the call has to succeed with      *)
(*            exactly this value and advance by exactly this length        *)
(*   may    : the property is silent (lenient cases): success with this    *)
(*            value/length, or any error                                   *)
(*   mayany : as may, but the value is not fixed either (only the length)  *)
(*   rej    : the call has to report an error                              *)
(* Explains(...) is the judgement used by trace validation and by the      *)
(* refinement check of DecoderImpl.  No outcome with st = "panic" is ever  *)
(* explained.                                                              *)
(***************************************************************************)
EXTENDS Wire

One == NatWord(1)

Item(c, v, vs, n) == [class |-> c, val |-> v, vals |-> vs, len |-> n]
Rej == Item("rej", <<>>, <<>>, 0)

ModeSafe == 0
ModeFast == 1

VarintOps == {"Bool", "UInt32", "UInt64", "Int32", "Int64", "SInt32", "SInt64"}
FixedOps  == {"Fixed32", "Fixed64", "Float32", "Float64"}
LenOps    == {"Bytes", "String"}
PackedOps == {"PackedBool", "PackedInt32", "PackedInt64", "PackedUint32", "PackedUint64",
              "PackedSint32", "PackedSint64", "PackedFixed32", "PackedFixed64",
              "PackedFloat32", "PackedFloat64"}
ElemOp(pop) == CASE pop = "PackedBool" -> "Bool"      [] pop = "PackedInt32" -> "Int32"
                 [] pop = "PackedInt64" -> "Int64"    [] pop = "PackedUint32" -> "UInt32"
                 [] pop = "PackedUint64" -> "UInt64"  [] pop = "PackedSint32" -> "SInt32"
                 [] pop = "PackedSint64" -> "SInt64"  [] pop = "PackedFixed32" -> "Fixed32"
                 [] pop = "PackedFixed64" -> "Fixed64" [] pop = "PackedFloat32" -> "Float32"
                 [] pop = "PackedFloat64" -> "Float64"

Weaker(c1, c2) == IF c1 = "rej" \/ c2 = "rej" THEN "rej"
                  ELSE IF c1 = "mayany" \/ c2 = "mayany" THEN "mayany"
                  ELSE IF c1 = "may" \/ c2 = "may" THEN "may" ELSE "must"

\* one varint-encoded scalar at cursor p
RefVarint(b, p, op) ==
  LET v == VarintAt(b, p) IN
  IF v.n = 0 THEN Rej
  ELSE IF v.big THEN Item("mayany", <<>>, <<>>, v.n)
  ELSE LET base == IF v.min THEN "must" ELSE "may" IN
       CASE op = "Bool"   -> Item(base, IF v.w = W0 THEN W0 ELSE One, <<>>, v.n)
         [] op = "UInt64" -> Item(base, v.w, <<>>, v.n)
         [] op = "Int64"  -> Item(base, v.w, <<>>, v.n)
         [] op = "SInt64" -> Item(base, UnZigZag(v.w), <<>>, v.n)
         [] op = "UInt32" -> IF FitsU32(v.w) THEN Item(base, v.w, <<>>, v.n)
                             ELSE Item("may", Low32(v.w), <<>>, v.n)
         [] op = "Int32"  -> IF IsS32(v.w) THEN Item(base, v.w, <<>>, v.n)
                             ELSE Item("may", SExt32(Low32(v.w)), <<>>, v.n)
         [] op = "SInt32" -> IF FitsU32(v.w) THEN Item(base, UnZigZag(v.w), <<>>, v.n)
                             ELSE Item("may", UnZigZag(Low32(v.w)), <<>>, v.n)

RefFixed(b, p, op) ==
  LET w == IF op \in {"Fixed32", "Float32"} THEN 4 ELSE 8 IN
  IF p + w > Len(b) THEN Rej ELSE Item("must", Slice(b, p, p + w), <<>>, w)

\* a length prefix at cursor p: [ok, n (prefix bytes), l (declared length), min]
LenPrefix(b, p) ==
  LET l == VarintAt(b, p) IN
  IF l.n = 0 \/ l.big \/ ~FitsNat(l.w) THEN [ok |-> FALSE, n |-> 0, l |-> 0, min |-> FALSE]
  ELSE IF WordNat(l.w) > Len(b) - p - l.n THEN [ok |-> FALSE, n |-> 0, l |-> 0, min |-> FALSE]   \* (no addition: TLC integers overflow)
  ELSE [ok |-> TRUE, n |-> l.n, l |-> WordNat(l.w), min |-> l.min]

RefBytes(b, p) ==
  LET lp == LenPrefix(b, p) IN
  IF ~lp.ok THEN Rej
  ELSE Item(IF lp.min THEN "must" ELSE "may", Slice(b, p + lp.n, p + lp.n + lp.l), <<>>, lp.n + lp.l)

RefElem(b, p, eop) == IF eop \in VarintOps THEN RefVarint(b, p, eop) ELSE RefFixed(b, p, eop)

\* elements of kind eop tiling the cursor range [r, end) exactly
RECURSIVE Tile(_, _, _, _)
Tile(b, r, end, eop) ==
  IF r = end THEN [class |-> "must", vals |-> <<>>]
  ELSE LET it == RefElem(b, r, eop) IN
       IF it.class = "rej" \/ r + it.len > end THEN [class |-> "rej", vals |-> <<>>]
       ELSE LET rest == Tile(b, r + it.len, end, eop) IN
            [class |-> Weaker(it.class, rest.class), vals |-> <<it.val>> \o rest.vals]

RefPacked(b, p, pop) ==
  LET lp == LenPrefix(b, p) IN
  IF ~lp.ok THEN Rej
  ELSE LET t == Tile(b, p + lp.n, p + lp.n + lp.l, ElemOp(pop)) IN
       IF t.class = "rej" THEN Rej
       ELSE Item(Weaker(IF lp.min THEN "must" ELSE "may", t.class), <<>>, t.vals, lp.n + lp.l)

RefTag(b, p) ==
  LET kv == VarintAt(b, p) IN
  IF kv.n = 0 THEN Rej
  ELSE IF kv.big \/ ~FitsU32(kv.w) THEN Item("mayany", <<>>, <<>>, kv.n)
  ELSE LET fn == KeyFn(kv.w)
           wt == KeyWt(kv.w) IN
       Item(IF kv.min /\ fn >= 1 /\ wt \in WireTypes THEN "must" ELSE "may", <<fn, wt>>, <<>>, kv.n)

\* extent of the payload of wire type wt at cursor p: [ok, len, firm]
PayloadExtent(b, p, wt) ==
  CASE wt = 0 -> LET v == VarintAt(b, p) IN
                 IF v.n = 0 THEN [ok |-> FALSE, len |-> 0, firm |-> FALSE]
                 ELSE [ok |-> TRUE, len |-> v.n, firm |-> ~v.big]
    [] wt = 1 -> IF p + 8 > Len(b) THEN [ok |-> FALSE, len |-> 0, firm |-> FALSE]
                 ELSE [ok |-> TRUE, len |-> 8, firm |-> TRUE]
    [] wt = 5 -> IF p + 4 > Len(b) THEN [ok |-> FALSE, len |-> 0, firm |-> FALSE]
                 ELSE [ok |-> TRUE, len |-> 4, firm |-> TRUE]
    [] wt = 2 -> LET lp == LenPrefix(b, p) IN
                 IF ~lp.ok THEN [ok |-> FALSE, len |-> 0, firm |-> FALSE]
                 ELSE [ok |-> TRUE, len |-> lp.n + lp.l, firm |-> TRUE]
    [] OTHER  -> [ok |-> FALSE, len |-> 0, firm |-> FALSE]

Max0(x) == IF x < 0 THEN 0 ELSE x

\* Skip(fn, wt): the caller has just read the key of field (fn, wt) and asks for the raw field.
\* The key normally is the minimal encoding EncKey(fn, wt) right before the cursor (keyOK).  A key may legally be encoded in more
\* bytes than necessary (LongKeyAt): then the call may be refused, and if it succeeds the raw field has to start where that key
\* starts (not SizeOfTagKey bytes before the cursor, which would cut the key).  Without any matching key before the cursor the call
\* is a misuse: refused in safe mode, unconstrained in fast mode (which documents that the check is skipped).
LongKeyAt(b, p, fn, wt) ==
  {q \in 0..(p - 1) : p - q <= 10 /\ LET kv == VarintAt(b, q) IN
                                        kv.n = p - q /\ ~kv.big /\ FitsU32(kv.w) /\ KeyFn(kv.w) = fn /\ KeyWt(kv.w) = wt}
\* the key DecodeTag read last: field number, wire type, where it starts and ends (none: en = -1)
NoTag == [fn |-> -1, wt |-> -1, s |-> -1, en |-> -1]
\* the protocol DecodeTag(); Skip(tag, wt): the key of this very field has just been read by DecodeTag and ends at the cursor.  The raw
\* field then starts where that key starts, however many bytes the key takes - in both modes (since d4693b2)
KeyJustRead(lt, p, fn, wt) == lt.en = p /\ lt.s >= 0 /\ lt.s < p /\ lt.fn = fn /\ lt.wt = wt

RefSkip(b, p, mode, fn, wt, lt) ==
  IF p >= Len(b) \/ wt \notin WireTypes \/ fn < 0 \/ fn > MaxFieldNumber THEN Rej
  ELSE LET key == EncKey(fn, wt)
           k   == Len(key)
           ext == PayloadExtent(b, p, wt)
           keyOK == p >= k /\ Slice(b, p - k, p) = key
           long == LongKeyAt(b, p, fn, wt)
       IN IF ~ext.ok THEN Rej
          ELSE IF KeyJustRead(lt, p, fn, wt)
               THEN Item(IF ext.firm /\ fn >= 1 THEN "must" ELSE "may", Slice(b, lt.s, p + ext.len), <<>>, ext.len)
          ELSE IF keyOK
               THEN Item(IF ext.firm /\ fn >= 1 THEN "must" ELSE "may", Slice(b, p - k, p + ext.len), <<>>, ext.len)
          ELSE IF long # {} /\ mode = ModeSafe
               THEN Item("may", Slice(b, CHOOSE q \in long : \A r \in long : q >= r, p + ext.len), <<>>, ext.len)
          ELSE IF mode = ModeSafe /\ p >= k THEN Rej
          ELSE Item("mayany", <<>>, <<>>, ext.len)

SeekTarget(b, p, offset, whence) ==
  CASE whence = 0 -> offset [] whence = 1 -> p + offset [] whence = 2 -> Len(b) + offset [] OTHER -> -1

\* The classification of a call.  e carries the arguments: fn, wt, i1, i2.
RefItem(b, p, mode, op, e) ==
  CASE op \in VarintOps -> RefVarint(b, p, op)
    [] op \in FixedOps  -> RefFixed(b, p, op)
    [] op \in LenOps    -> RefBytes(b, p)
    [] op \in PackedOps -> RefPacked(b, p, op)
    [] op = "Tag"       -> RefTag(b, p)
    [] op = "Skip"      -> RefSkip(b, p, mode, e.fn, e.wt, e.lt)
    [] op = "Nested"    -> RefBytes(b, p)
    [] OTHER            -> Rej

AllocBound(b) == 64 * Len(b) + 4096

(***************************************************************************)
(* Judgement of one observed call.  o = [st, val, vals, off, alloc, cnt,   *)
(* sb, same]: the outcome; cnt/sb/same only for "Nested" (stub call count, *)
(* bytes handed to the stub, returned error identical to the stub's).      *)
(* e.i1 = 1 for "Nested" makes the stub unmarshaler fail.                  *)
(***************************************************************************)
ExplainsDecode(b, p, mode, op, e, o) ==
  /\ o.st \in {"ok", "err"}
  /\ o.off \in 0..Len(b)
  /\ o.alloc <= AllocBound(b)
  /\ CASE op = "Seek" ->
            LET t == SeekTarget(b, p, e.i1, e.i2) IN
            IF e.i2 \in 0..2 /\ t \in 0..Len(b)
            THEN o.st = "ok" /\ o.off = t
            ELSE o.st = "err"
       [] op = "Reset"   -> o.st = "ok" /\ o.off = 0
       [] op = "SetMode" -> o.st = "ok" /\ o.off = p
       [] op = "More"    -> o.st = "ok" /\ o.off = p /\ o.val = <<IF p < Len(b) THEN 1 ELSE 0>>
       [] op = "Offset"  -> o.st = "ok" /\ o.off = p /\ o.val = <<p>>
       [] op = "Nested"  ->
            LET it == RefBytes(b, p) IN
            IF it.class = "rej" THEN o.st = "err" /\ o.cnt = 0
            ELSE IF e.i1 = 1
                 THEN o.st = "err" /\ (o.cnt = 0 \/ (o.cnt = 1 /\ o.sb = it.val /\ o.same = 1))
                      /\ (it.class = "must" => o.cnt = 1)
            ELSE \/ o.st = "ok" /\ o.off = p + it.len /\ o.cnt = 1 /\ o.sb = it.val
                 \/ o.st = "err" /\ it.class # "must" /\ o.cnt = 0
       [] op = "NestedBad" ->      \* DecodeNested into a message of a runtime that rejects the (well-delimited) payload: the error propagates
            o.st = "err"
       [] op = "NestedMsg" ->      \* DecodeNested into a real message; same = 1: it equals the original
            LET it == RefBytes(b, p) IN
            IF it.class = "rej" THEN o.st = "err"
            ELSE \/ o.st = "ok" /\ o.off = p + it.len /\ o.same = 1
                 \/ o.st = "err" /\ it.class # "must"
       [] OTHER ->
            LET it == RefItem(b, p, mode, op, e) IN
            \/ /\ o.st = "ok"
               /\ it.class \in {"must", "may", "mayany"}
               /\ o.off = p + it.len
               /\ it.class # "mayany" => (o.val = it.val /\ o.vals = it.vals)
            \/ /\ o.st = "err"
               /\ it.class # "must"
=============================================================================
