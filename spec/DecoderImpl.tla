---------------------------- MODULE DecoderImpl ----------------------------
(***************************************************************************)
(* Implementation-shaped model of decoder.go: a transcription of each      *)
(* method's case analysis (bounds tests, range tests, where the cursor     *)
(* rests after an error).  TLC checks that every step of this model is     *)
(* explained by the requirement-level Decoder module (MCDecoder), and the  *)
(* conformance harness compares the real code with this model step by      *)
(* step (a difference is reported as model drift, not as a violation: the  *)
(* verdict always comes from Decoder!ExplainsDecode).                      *)
(***************************************************************************)
EXTENDS Decoder

Out(st, v, vs, off) == [st |-> st, val |-> v, vals |-> vs, off |-> off]
IErr(off) == Out("err", <<>>, <<>>, off)

\* csproto.DecodeVarint: error iff unterminated or more than 10 bytes
IVarint(b, p) == VarintAt(b, p)

ImplVarintOp(b, p, op) ==
  IF p >= Len(b) THEN IErr(p)
  ELSE LET v == IVarint(b, p) IN
       IF v.n = 0 THEN IErr(p)
       ELSE CASE op = "Bool"   -> Out("ok", IF v.w = W0 THEN W0 ELSE One, <<>>, p + v.n)
              [] op = "UInt64" -> Out("ok", v.w, <<>>, p + v.n)
              [] op = "Int64"  -> Out("ok", v.w, <<>>, p + v.n)
              [] op = "SInt64" -> Out("ok", UnZigZag(v.w), <<>>, p + v.n)
              [] op = "SInt32" -> Out("ok", UnZigZag(Low32(v.w)), <<>>, p + v.n)
              [] op = "UInt32" -> IF FitsU32(v.w) THEN Out("ok", v.w, <<>>, p + v.n) ELSE IErr(p)
              [] op = "Int32"  -> IF IsS32(v.w) THEN Out("ok", v.w, <<>>, p + v.n) ELSE IErr(p)

ImplFixedOp(b, p, op) ==
  LET w == IF op \in {"Fixed32", "Float32"} THEN 4 ELSE 8 IN
  IF p >= Len(b) \/ Len(b) - p < w THEN IErr(p)
  ELSE Out("ok", Slice(b, p, p + w), <<>>, p + w)

ImplBytes(b, p) ==
  IF p >= Len(b) THEN IErr(p)
  ELSE LET l == IVarint(b, p) IN
       IF l.n = 0 THEN IErr(p)
       ELSE IF ~FitsNat(l.w) THEN IErr(p)                      \* l > maxFieldLen
       ELSE IF WordNat(l.w) > Len(b) - p - l.n THEN IErr(p)
       ELSE Out("ok", Slice(b, p + l.n, p + l.n + WordNat(l.w)), <<>>, p + l.n + WordNat(l.w))

\* one element read inside a packed loop at cursor r: [ok, val, n]
ImplElem(b, r, eop) ==
  IF eop \in VarintOps
  THEN LET v == IVarint(b, r) IN
       IF v.n = 0 THEN [ok |-> FALSE, val |-> <<>>, n |-> 0]
       ELSE CASE eop = "Bool"   -> [ok |-> TRUE, val |-> IF v.w = W0 THEN W0 ELSE One, n |-> v.n]
              [] eop = "UInt64" -> [ok |-> TRUE, val |-> v.w, n |-> v.n]
              [] eop = "Int64"  -> [ok |-> TRUE, val |-> v.w, n |-> v.n]
              [] eop = "SInt64" -> [ok |-> TRUE, val |-> UnZigZag(v.w), n |-> v.n]
              [] eop = "SInt32" -> [ok |-> TRUE, val |-> UnZigZag(Low32(v.w)), n |-> v.n]
              [] eop = "UInt32" -> [ok |-> FitsU32(v.w), val |-> v.w, n |-> v.n]
              [] eop = "Int32"  -> [ok |-> IsS32(v.w), val |-> v.w, n |-> v.n]
  ELSE LET w == IF eop \in {"Fixed32", "Float32"} THEN 4 ELSE 8 IN
       IF Len(b) - r < w THEN [ok |-> FALSE, val |-> <<>>, n |-> 0]
       ELSE [ok |-> TRUE, val |-> Slice(b, r, r + w), n |-> w]

\* the packed loop: for nRead < l { if offset >= len -> EOF; read element; nRead += n; offset += n }
\* l is a word (it is never range-checked by the implementation); lw = l if it fits, else "huge"
RECURSIVE ImplPackedLoop(_, _, _, _, _, _)
ImplPackedLoop(b, r, nread, l, eop, acc) ==
  IF nread >= l THEN (IF nread = l THEN Out("ok", <<>>, acc, r) ELSE IErr(r))
  ELSE IF r >= Len(b) THEN IErr(r)
  ELSE LET el == ImplElem(b, r, eop) IN
       IF ~el.ok THEN IErr(r)
       ELSE ImplPackedLoop(b, r + el.n, nread + el.n, l, eop, Append(acc, el.val))

ImplPacked(b, p, pop) ==
  IF p >= Len(b) THEN IErr(p)
  ELSE LET l == IVarint(b, p) IN
       IF l.n = 0 THEN IErr(p)
       ELSE LET lim == IF FitsNat(l.w) THEN WordNat(l.w) ELSE 2147483647 IN   \* a declared length beyond any buffer
            \* PackedFloat32 pre-allocates, so it tests the declared length against the remaining input first
            IF pop = "PackedFloat32" /\ lim > Len(b) - (p + l.n) THEN IErr(p + l.n)
            ELSE ImplPackedLoop(b, p + l.n, 0, lim, ElemOp(pop), <<>>)

ImplTag(b, p) ==
  IF p >= Len(b) THEN IErr(p)
  ELSE LET v == IVarint(b, p) IN
       IF v.n = 0 THEN IErr(p)
       ELSE IF v.w = W0 THEN IErr(p)
       ELSE IF ~FitsU32(v.w) THEN IErr(p)                      \* (v >> 3) > MaxTagValue
       ELSE Out("ok", <<KeyFn(v.w), KeyWt(v.w)>>, <<>>, p + v.n)

\* Skip(tag, wt): the raw field starts at the key DecodeTag has just read when that key is this field's (its actual extent: a key is not
\* necessarily minimal, d4693b2); otherwise SizeOfTagKey(tag) bytes before the cursor
ImplSkip(b, p, mode, fn, wt, lt) ==
  IF p >= Len(b) THEN IErr(p)
  ELSE LET sz0 == SigLen(KeyWord(fn, 0))
           use == lt.en = p /\ lt.s < p /\ fn >= 0 /\ lt.fn = fn /\ lt.wt = wt
           bof == IF use THEN lt.s ELSE Max0(p - sz0)
           sz  == IF use THEN p - lt.s ELSE sz0
           chk == IF mode = ModeSafe
                  THEN LET v == IVarint(b, bof) IN
                       v.n # 0 /\ v.n = sz /\ FitsU32(v.w) /\ KeyFn(v.w) = fn /\ KeyWt(v.w) = wt
                  ELSE TRUE
       IN IF ~chk THEN IErr(p)
          ELSE LET ext == CASE wt = 0 -> LET v == IVarint(b, p) IN [ok |-> v.n # 0, len |-> v.n]
                            [] wt = 1 -> [ok |-> TRUE, len |-> 8]
                            [] wt = 5 -> [ok |-> TRUE, len |-> 4]
                            [] wt = 2 -> LET l == IVarint(b, p) IN
                                         IF l.n = 0 \/ ~FitsNat(l.w) THEN [ok |-> FALSE, len |-> 0]
                                         ELSE IF WordNat(l.w) > Len(b) - p - l.n THEN [ok |-> FALSE, len |-> 0]
                                         ELSE [ok |-> TRUE, len |-> l.n + WordNat(l.w)]
                            [] OTHER  -> [ok |-> FALSE, len |-> 0]
               IN IF ~ext.ok \/ p + ext.len > Len(b) THEN IErr(p)
                  ELSE Out("ok", Slice(b, bof, p + ext.len), <<>>, p + ext.len)

\* the remembered key after a call
NextTag(lt, p, op, o) == IF op = "Tag" /\ o.st = "ok" THEN [fn |-> o.val[1], wt |-> o.val[2], s |-> p, en |-> o.off] ELSE lt

ImplSeek(b, p, offset, whence) ==
  LET t == SeekTarget(b, p, offset, whence) IN
  IF whence \in 0..2 /\ t \in 0..Len(b) THEN Out("ok", <<>>, <<>>, t) ELSE IErr(p)

\* the model's step for a call (Nested is modelled through ImplBytes by the caller)
ImplStep(b, p, mode, op, e) ==
  CASE op \in VarintOps -> ImplVarintOp(b, p, op)
    [] op \in FixedOps  -> ImplFixedOp(b, p, op)
    [] op \in LenOps    -> ImplBytes(b, p)
    [] op \in PackedOps -> ImplPacked(b, p, op)
    [] op = "Tag"       -> ImplTag(b, p)
    [] op = "Skip"      -> ImplSkip(b, p, mode, e.fn, e.wt, e.lt)
    [] op = "Seek"      -> ImplSeek(b, p, e.i1, e.i2)
    [] op = "Reset"     -> Out("ok", <<>>, <<>>, 0)
    [] op = "SetMode"   -> Out("ok", <<>>, <<>>, p)
    [] op = "More"      -> Out("ok", <<IF p < Len(b) THEN 1 ELSE 0>>, <<>>, p)
    [] op = "Offset"    -> Out("ok", <<p>>, <<>>, p)
=============================================================================
