---------------------------- MODULE JsonAdapter ----------------------------
(***************************************************************************)
(* The JSON adapters of json.go (C18) as an implementation-shaped model:   *)
(* one call = nil check -> delegation to the message's own json.Marshaler  *)
(* -> runtime detection in a fixed ORDER -> the runtime's marshaler or     *)
(* unmarshaler configured from csproto's options by a WIRING that exists   *)
(* once per runtime path.  The requirement (documented effect of every     *)
(* option, nil behaviour, owning decoder) is an invariant of the finished  *)
(* call; TLC checks it for every message kind x option set x message       *)
(* feature, and the same matrix is what the harness has to cover.          *)
(*                                                                         *)
(* Variant selects the code that is modelled: "asfound" is json.go as      *)
(* pinned; the others are realistic slips kept as expected violations.     *)
(***************************************************************************)
EXTENDS Integers, Sequences, FiniteSets, TLC
CONSTANT Variant

Kinds == {"nil", "typednil", "self", "google", "googlev1", "gogo", "none"}
Indents == {0, 1, 2}                     \* 0 = "", 1 = one character, 2 = two or more characters
Opts == [indent : Indents, enumnums : BOOLEAN, emitzero : BOOLEAN, allowunk : BOOLEAN, allowpartial : BOOLEAN]
Feats == [hasenum : BOOLEAN, haszero : BOOLEAN, unkkey : BOOLEAN, missreq : BOOLEAN]

\* which Go interfaces a value satisfies: gogo.Message and protov1.Message are the same method set, and every
\* google-v2 generated message has the v1 methods too - so the ORDER of the type assertions is what classifies
Sat(k) == CASE k = "self"     -> {"Self"}
            [] k = "google"   -> {"V2", "V1", "Gogo"}
            [] k = "googlev1" -> {"V1", "Gogo"}
            [] k = "gogo"     -> {"V1", "Gogo"}
            [] OTHER          -> {}
Order == IF Variant = "v1_before_v2" THEN <<"Self", "V1", "V2", "Gogo">> ELSE <<"Self", "V2", "V1", "Gogo">>
Detect(k) == IF \E i \in 1..Len(Order) : Order[i] \in Sat(k)
             THEN Order[CHOOSE i \in 1..Len(Order) : Order[i] \in Sat(k) /\ \A j \in 1..(i - 1) : Order[j] \notin Sat(k)]
             ELSE "unsupported"

\* the runtime marshaler's own option record, as each path fills it in
MWire(path, o) ==
  CASE path = "V2"   -> [Indent |-> o.indent, EnumNums |-> o.enumnums, EmitZero |-> o.emitzero]
    [] path = "V1"   -> IF Variant = "swap_v1"
                        THEN [Indent |-> o.indent, EnumNums |-> o.emitzero, EmitZero |-> o.enumnums]
                        ELSE [Indent |-> o.indent, EnumNums |-> o.enumnums, EmitZero |-> o.emitzero]
    [] path = "Gogo" -> [Indent |-> o.indent, EnumNums |-> o.enumnums, EmitZero |-> o.emitzero]
    [] OTHER         -> [Indent |-> 0, EnumNums |-> FALSE, EmitZero |-> FALSE]
UWire(path, o) ==
  CASE path = "V2"   -> [AllowPartial |-> o.allowpartial, DiscardUnknown |-> IF Variant = "drop_v2_unknown" THEN FALSE ELSE o.allowunk]
    [] OTHER         -> [AllowPartial |-> FALSE, DiscardUnknown |-> o.allowunk]

\* what a runtime's JSON marshaler does with its options (the runtimes are trusted, C18 is about the wiring)
Render(ro, f) == [st |-> "ok", outnil |-> FALSE,
                  enumasnum |-> f.hasenum /\ ro.EnumNums, zeroemitted |-> f.haszero /\ ro.EmitZero,
                  multiline |-> ro.Indent # 0, prefix |-> ro.Indent]
\* a v1-API runtime handed a google-v2 message still renders it (through the legacy wrapper), but with ITS OWN json
\* dialect: the owning runtime's decoder is only guaranteed to accept the owning runtime's rendering
Owner(k) == IF k = "google" THEN "V2" ELSE "V1"       \* jsonpb of golang/protobuf and of gogo share one dialect
Accept(ro, f) == (f.unkkey => ro.DiscardUnknown) /\ (f.missreq => ro.AllowPartial)

VARIABLES pc, dir, kind, opt, feat, path, res
vars == <<pc, dir, kind, opt, feat, path, res>>
NoRes == [st |-> "none"]

Init == /\ pc = "entry" /\ dir \in {"marshal", "unmarshal"} /\ kind \in Kinds /\ opt \in Opts /\ feat \in Feats
        /\ path = "none" /\ res = NoRes
NilCheck == /\ pc = "entry"
            /\ IF kind \in {"nil", "typednil"}
               THEN /\ res' = (IF dir = "marshal" THEN [st |-> "ok", outnil |-> TRUE] ELSE [st |-> "err"])
                    /\ pc' = "done" /\ UNCHANGED path
               ELSE pc' = "detect" /\ UNCHANGED <<res, path>>
            /\ UNCHANGED <<dir, kind, opt, feat>>
DetectStep == /\ pc = "detect" /\ path' = Detect(kind) /\ pc' = "call" /\ UNCHANGED <<dir, kind, opt, feat, res>>
Call == /\ pc = "call" /\ pc' = "done"
        /\ res' = CASE path = "unsupported" -> [st |-> "err"]
                    [] path = "Self" -> [st |-> "self"]                       \* the message's own implementation decides
                    [] dir = "marshal" -> [Render(MWire(path, opt), feat) EXCEPT !.st = "ok"] @@ [dialect |-> IF path = "V2" THEN "V2" ELSE "V1"]
                    [] OTHER -> [st |-> IF Accept(UWire(path, opt), feat) THEN "ok" ELSE "err"]
        /\ UNCHANGED <<dir, kind, opt, feat, path>>
Next == NilCheck \/ DetectStep \/ Call \/ (pc = "done" /\ UNCHANGED vars)
Spec == Init /\ [][Next]_vars

(***************************************************************************)
(* The requirement, on finished calls.                                     *)
(***************************************************************************)
Owned == {"google", "googlev1", "gogo"}
MarshalReq ==
  (pc = "done" /\ dir = "marshal") =>
     /\ kind \in {"nil", "typednil"} => (res.st = "ok" /\ res.outnil)
     /\ kind = "none" => res.st = "err"
     /\ kind \in Owned =>
          /\ res.st = "ok" /\ ~res.outnil
          /\ res.dialect = Owner(kind)                                   \* accepted by the owning runtime's own decoder
          /\ res.enumasnum = (feat.hasenum /\ opt.enumnums)              \* each option has exactly its documented effect
          /\ res.zeroemitted = (feat.haszero /\ opt.emitzero)
          /\ res.multiline = (opt.indent # 0) /\ res.prefix = opt.indent
UnmarshalReq ==
  (pc = "done" /\ dir = "unmarshal") =>
     /\ kind \in {"nil", "typednil"} => res.st = "err"
     /\ kind = "none" => res.st = "err"
     /\ kind \in Owned =>
          LET ok == (feat.unkkey => opt.allowunk) /\ (feat.missreq => (kind = "google" /\ opt.allowpartial))
          IN res.st = (IF ok THEN "ok" ELSE "err")
Req == MarshalReq /\ UnmarshalReq
\* the gogo branch is unreachable: every gogo message satisfies protov1.Message first (reported by a seeding agent, confirmed by the model)
GogoBranchDead == path # "Gogo"

\* the matrix the harness has to cover: one cell per finished call on an owned message
Cell == IF dir = "marshal"
        THEN <<"marshal", kind, opt.indent, opt.enumnums, opt.emitzero>>
        ELSE <<"unmarshal", kind, feat.unkkey, feat.missreq, opt.allowunk, opt.allowpartial>>
EmitCells == (pc = "done" /\ kind \in Owned) => PrintT(<<"CELL", Cell>>)
=============================================================================
