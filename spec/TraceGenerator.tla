--------------------------- MODULE TraceGenerator ---------------------------
(* Trace validation for C16: one event per plug-in run on a corpus file (schema x flavour x option set). *)
EXTENDS Generator, Json, TLC

Trace == ndJsonDeserialize("trace.ndjson")
VARIABLES l, bad, desync
vars == <<l, bad, desync>>
Init == l = 1 /\ bad = <<>> /\ desync = <<>>

Step == /\ l <= Len(Trace)
        /\ LET e == Trace[l] IN
           /\ l' = l + 1
           /\ IF e.c = "param"
              THEN \* one plug-in run with one parameter of the TLC-generated domain: accepted exactly when ParamOK
                   /\ bad' = IF (e.ok = 1) <=> ParamOK(e.k, e.v) THEN bad ELSE Append(bad, l)
                   /\ UNCHANGED desync
              ELSE /\ bad' = IF GenOK(e.req, e.o) THEN bad ELSE Append(bad, l)
                   /\ desync' = IF e.rterr = "" THEN desync ELSE Append(desync, l)   \* the runtime's own generator failed: corpus defect
Spec == Init /\ [][Step]_vars
Report == l = Len(Trace) + 1 => JsonSerialize("result.json", [n |-> Len(Trace), bad |-> bad, drift |-> <<>>, desync |-> desync])
=============================================================================
