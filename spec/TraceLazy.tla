----------------------------- MODULE TraceLazy -----------------------------
(***************************************************************************)
(* Trace validation for lazyproto (C13, C14, C15, lazy half of C10).       *)
(* The model state maps every result handle the harness obtained to the    *)
(* input and definition it was decoded from; every accessor, nested lookup *)
(* and Range event is judged against the reference parse of THAT handle's  *)
(* own input (Lazy!AccRef ...), whatever pooled object the implementation  *)
(* happened to reuse for it.  Ownership events (pool get/put, stamped      *)
(* inside the verif hook) are checked for exclusivity.                     *)
(***************************************************************************)
EXTENDS Lazy, Json, TLC

Trace == ndJsonDeserialize("trace.ndjson")

VARIABLES l, res, held, bad, desync
vars == <<l, res, held, bad, desync>>

\* res : handle -> [buf, def, cls, live, mode]
Init == l = 1 /\ res = <<>> /\ held = {} /\ bad = <<>> /\ desync = <<>>

Known(h) == h \in DOMAIN res
Put(h, r) == IF h \in DOMAIN res THEN [res EXCEPT ![h] = r] ELSE res @@ (h :> r)

\* handles are 1, 2, 3, ... within a group, so res is a sequence that grows by one
Bind(rs, h, r) == IF h = Len(rs) + 1 THEN Append(rs, r) ELSE rs

RECURSIVE BindAll(_, _, _, _, _)
BindAll(rs, hs, bufs, def, mode) ==
  IF hs = <<>> THEN rs
  ELSE BindAll(Bind(rs, Head(hs), [buf |-> Head(bufs), def |-> def, live |-> TRUE, mode |-> mode,
                                   cls |-> IF Head(bufs) = <<>> THEN "must" ELSE DecodeClass(Head(bufs), def)]),
               Tail(hs), Tail(bufs), def, mode)

RECURSIVE BindAny(_, _, _)
BindAny(rs, hs, mode) ==
  IF hs = <<>> THEN rs
  ELSE BindAny(Bind(rs, Head(hs), [buf |-> <<>>, def |-> [tags |-> <<>>, nested |-> <<>>], live |-> TRUE, mode |-> mode, cls |-> "any"]), Tail(hs), mode)

Outcome(e) == [st |-> e.st, val |-> e.val, vals |-> e.vals]

DecodeOK(e) ==
  LET c == DecodeClass(e.buf, e.def) IN
  /\ e.st \in {"ok", "err"}
  /\ c \in {"must", "empty"} => e.st = "ok"

\* a declared tag on a result of an empty input is absent: not-found
AccOK(e) ==
  LET r == res[e.h] IN
  /\ e.st # "panic"
  /\ r.cls \in {"must", "wf"} => Matches(PathRef(r.buf, r.def, e.path, e.acc), Outcome(e))
  /\ r.cls = "empty" => e.st = (IF Len(e.path) = 1 /\ Declared(r.def, Abs(e.path[1])) THEN "notfound"
                                ELSE IF Len(e.path) = 1 THEN "notdefined" ELSE e.st)

NestedExp(e) == LET r == res[e.hp] IN NestedRef(r.buf, r.def, e.tag, e.all = 1)
NestedOK(e) ==
  LET r == res[e.hp] IN
  /\ e.st # "panic"
  /\ r.cls \in {"must", "wf"} =>
       LET x == NestedExp(e) IN
       IF x.class = "val"
       THEN LET nd == NestedDef(r.def, Abs(e.tag))
                allmust == \A i \in 1..Len(x.bufs) : x.bufs[i] = <<>> \/ DecodeClass(x.bufs[i], nd) = "must" IN
            IF allmust THEN e.st = "ok" /\ Len(e.hs) = Len(x.bufs) ELSE TRUE
       ELSE Matches(ErrC(x.class), Outcome(e))
  /\ r.cls = "empty" => e.st # "ok"

\* e.tag = 0: the callback always continues; e.tag = k > 0: it returns false at its k-th call, which has to be the last one
RangeOK(e) ==
  LET r == res[e.h]
      seen == {<<e.rng[i][1], e.rng[i][2]>> : i \in 1..Len(e.rng)} IN
  /\ e.st = "ok"
  /\ r.cls \in {"must", "wf", "empty"} =>
       IF e.tag = 0
       THEN seen = RangeRef(r.buf, r.def) /\ Len(e.rng) = Len(r.def.tags)
       ELSE /\ seen \subseteq RangeRef(r.buf, r.def) /\ Cardinality(seen) = Len(e.rng)
            /\ Len(e.rng) = (IF e.tag < Len(r.def.tags) THEN e.tag ELSE Len(r.def.tags))
\* methods of nil receivers: Close and Range do nothing, every lookup is an error, nothing panics (codes: see the harness)
NilOK(e) == /\ Len(e.val) = 11 /\ e.val[1] = 0 /\ e.val[2] = 0
            /\ \A i \in 3..11 : e.val[i] \in {1, 2, 3}

Flag(cond) == IF cond THEN bad ELSE Append(bad, l)

Step ==
  /\ l <= Len(Trace)
  /\ LET e == Trace[l] IN
     /\ l' = l + 1
     /\ CASE e.c = "reset" ->
               /\ res' = <<>> /\ UNCHANGED <<bad, desync, held>>
          [] e.c = "decode" ->
               /\ bad' = Flag(DecodeOK(e))
               /\ desync' = IF e.h = Len(res) + 1 THEN desync ELSE Append(desync, l)
               /\ res' = Bind(res, e.h, [buf |-> e.buf, def |-> e.def, live |-> e.st = "ok", mode |-> e.mode,
                                         cls |-> IF e.st = "ok" THEN DecodeClass(e.buf, e.def) ELSE "dead"])
               /\ UNCHANGED held
          [] e.c = "acc" ->
               /\ desync' = IF e.h \in 1..Len(res) /\ res[e.h].live THEN desync ELSE Append(desync, l)
               /\ bad' = IF e.h \in 1..Len(res) /\ res[e.h].live THEN Flag(AccOK(e)) ELSE bad
               /\ UNCHANGED <<res, held>>
          [] e.c = "nested" ->
               /\ desync' = IF e.hp \in 1..Len(res) /\ res[e.hp].live THEN desync ELSE Append(desync, l)
               /\ bad' = IF e.hp \in 1..Len(res) /\ res[e.hp].live THEN Flag(NestedOK(e)) ELSE bad
               /\ res' = IF e.hp \in 1..Len(res) /\ e.st = "ok" /\ e.hs # <<>>
                         THEN LET r == res[e.hp]
                                  x == IF r.cls \in {"must", "wf"} THEN NestedExp(e) ELSE [class |-> "x", bufs |-> <<>>] IN
                              IF x.class = "val" /\ Len(x.bufs) = Len(e.hs)
                              THEN BindAll(res, e.hs, x.bufs, NestedDef(r.def, Abs(e.tag)), r.mode)
                              ELSE BindAny(res, e.hs, r.mode)     \* results the model cannot attribute to an input: not judged further
                         ELSE res
               /\ UNCHANGED held
          [] e.c = "range" ->
               /\ desync' = IF e.h \in 1..Len(res) /\ res[e.h].live THEN desync ELSE Append(desync, l)
               /\ bad' = IF e.h \in 1..Len(res) /\ res[e.h].live THEN Flag(RangeOK(e)) ELSE bad
               /\ UNCHANGED <<res, held>>
          [] e.c = "nilres" ->
               /\ bad' = Flag(NilOK(e))
               /\ UNCHANGED <<res, desync, held>>
          [] e.c = "close" ->
               /\ bad' = Flag(e.st = "ok")
               /\ res' = IF e.h \in 1..Len(res) THEN [res EXCEPT ![e.h].live = FALSE] ELSE res
               /\ UNCHANGED <<desync, held>>
          [] e.c = "chk" ->      \* values handed out earlier in safe mode are still intact (eq = 1)
               /\ bad' = Flag(e.mode = 1 \/ e.eq = 1)
               /\ UNCHANGED <<res, desync, held>>
          [] e.c = "get" ->      \* a result object leaves its pool: nobody else may be holding it
               /\ bad' = Flag(e.ptr \notin held)
               /\ held' = held \cup {e.ptr}
               /\ UNCHANGED <<res, desync>>
          [] e.c = "put" ->
               /\ bad' = Flag(e.ptr \in held)
               /\ held' = held \ {e.ptr}
               /\ UNCHANGED <<res, desync>>
          [] e.c = "race" ->     \* the race detector reported a data race during the recorded run
               /\ bad' = Append(bad, l)
               /\ UNCHANGED <<res, desync, held>>
          [] OTHER ->
               /\ desync' = Append(desync, l)
               /\ UNCHANGED <<res, bad, held>>

Spec == Init /\ [][Step]_vars

Report == l = Len(Trace) + 1 =>
            JsonSerialize("result.json", [n |-> Len(Trace), bad |-> bad, drift |-> <<>>, desync |-> desync])
=============================================================================
