----------------------------- MODULE TraceTools -----------------------------
(* Trace validation for C20: recorded ParseAnnotatedHex calls and protodump runs. *)
EXTENDS Tools, Json, TLC
Trace == ndJsonDeserialize("trace.ndjson")
VARIABLES l, bad, desync
vars == <<l, bad, desync>>
Init == l = 1 /\ bad = <<>> /\ desync = <<>>
Step == /\ l <= Len(Trace)
        /\ LET e == Trace[l] IN
           /\ l' = l + 1
           /\ CASE e.c = "hex"  -> bad' = (IF ExplainsHex(e) THEN bad ELSE Append(bad, l)) /\ UNCHANGED desync
                [] e.c = "dump" -> bad' = (IF ExplainsDump(e) THEN bad ELSE Append(bad, l)) /\ UNCHANGED desync
                [] OTHER -> desync' = Append(desync, l) /\ UNCHANGED bad
Spec == Init /\ [][Step]_vars
Report == l = Len(Trace) + 1 => JsonSerialize("result.json", [n |-> Len(Trace), bad |-> bad, drift |-> <<>>, desync |-> desync])
=============================================================================
