------------------------------- MODULE Lazy -------------------------------
(***************************************************************************)
(* Requirement-level specification of lazyproto (C13; value oracle of C14,  *)
(* C15 and of the lazy half of C10): what a partial decode of message b     *)
(* under definition def has to return for every accessor, in terms of the   *)
(* reference wire parse Wire!ParseAll.                                      *)
(*                                                                         *)
(* A definition is data: [tags |-> <<t1, ...>>, nested |-> <<[tag, def]>>]  *)
(* (tags: absolute values of all keys; nested: keys with a sub-definition). *)
(* An expectation is [class, val, vals] with class one of                   *)
(*   "val"        the call has to succeed with exactly val / vals           *)
(*   "notfound" "notdefined" "nonesting" "mismatch" "overflow"              *)
(*                the call has to fail with that class of error             *)
(*   "anyerr"     the call has to fail (any error)                          *)
(*   "may"        the property is silent: any result or error, no panic     *)
(***************************************************************************)
EXTENDS Wire

Abs(t) == IF t < 0 THEN -t ELSE t
Exp(c, v, vs) == [class |-> c, val |-> v, vals |-> vs]
May == Exp("may", <<>>, <<>>)
ErrC(c) == Exp(c, <<>>, <<>>)

Declared(def, t) == \E i \in 1..Len(def.tags) : def.tags[i] = t
HasNested(def, t) == \E i \in 1..Len(def.nested) : def.nested[i].tag = t
NestedDef(def, t) == def.nested[CHOOSE i \in 1..Len(def.nested) : def.nested[i].tag = t].def

\* occurrences of field t in a well-formed buffer: <<[wt, pay (payload bytes)]>>
Occs(b, t) ==
  LET fs == ParseAll(b)
      sel == SelectSeq(fs, LAMBDA f : f.fn = t)
  IN [i \in 1..Len(sel) |-> [wt |-> sel[i].wt, pay |-> Slice(b, sel[i].pay, sel[i].end)]]

\* how a top-level decode of b under def has to behave
\*   "empty" : nothing to decode;  "must" : has to succeed;  "may" : error or result
DecodeClass(b, def) ==
  IF b = <<>> THEN "empty"
  ELSE LET fs == ParseAll(b) IN
       IF \E i \in 1..Len(fs) : ~fs[i].ok THEN "may"
       ELSE IF \E i, j \in 1..Len(fs) : fs[i].fn = fs[j].fn /\ fs[i].wt # fs[j].wt /\ Declared(def, fs[i].fn) THEN "may"
       \* well-formed, but a key or length prefix is not minimally encoded: the decode may be refused; if it succeeds, every
       \* accessor has to answer as for any other well-formed message
       ELSE IF \E i \in 1..Len(fs) : ~fs[i].canon THEN "wf"
       ELSE IF \E i, j \in 1..Len(fs) : fs[i].fn = fs[j].fn /\ fs[i].wt # fs[j].wt /\ Declared(def, fs[i].fn) THEN "may"
       ELSE "must"

ScalarAccs == {"Bool", "String", "Bytes", "UInt32", "Int32", "SInt32", "UInt64", "Int64", "SInt64",
               "Fixed32", "Fixed64", "Float32", "Float64"}
SliceAccs  == {"Bools", "Strings", "BytesS", "UInt32s", "Int32s", "SInt32s", "UInt64s", "Int64s", "SInt64s",
               "Fixed32s", "Fixed64s", "Float32s", "Float64s"}
Base(acc) == CASE acc = "Bools" -> "Bool" [] acc = "Strings" -> "String" [] acc = "BytesS" -> "Bytes"
               [] acc = "UInt32s" -> "UInt32" [] acc = "Int32s" -> "Int32" [] acc = "SInt32s" -> "SInt32"
               [] acc = "UInt64s" -> "UInt64" [] acc = "Int64s" -> "Int64" [] acc = "SInt64s" -> "SInt64"
               [] acc = "Fixed32s" -> "Fixed32" [] acc = "Fixed64s" -> "Fixed64" [] acc = "Float32s" -> "Float32"
               [] acc = "Float64s" -> "Float64" [] OTHER -> acc
AccWt(a) == IF a \in {"Bool", "UInt32", "Int32", "SInt32", "UInt64", "Int64", "SInt64"} THEN 0
            ELSE IF a \in {"Fixed32", "Float32"} THEN 5
            ELSE IF a \in {"Fixed64", "Float64"} THEN 1 ELSE 2

\* one element of base type a at cursor r of payload p: [c \in {"val","overflow","anyerr","may"}, val, n]
ElemAt(p, r, a) ==
  IF AccWt(a) = 0
  THEN LET v == VarintAt(p, r) IN
       IF v.n = 0 THEN [c |-> "anyerr", val |-> <<>>, n |-> 0]
       ELSE IF v.big THEN [c |-> "may", val |-> <<>>, n |-> v.n]
       ELSE CASE a = "Bool"   -> [c |-> "val", val |-> IF v.w = W0 THEN W0 ELSE NatWord(1), n |-> v.n]
              [] a = "UInt64" -> [c |-> "val", val |-> v.w, n |-> v.n]
              [] a = "Int64"  -> [c |-> "val", val |-> v.w, n |-> v.n]
              [] a = "SInt64" -> [c |-> "val", val |-> UnZigZag(v.w), n |-> v.n]
              [] a = "UInt32" -> IF FitsU32(v.w) THEN [c |-> "val", val |-> v.w, n |-> v.n]
                                 ELSE [c |-> "overflow", val |-> <<>>, n |-> v.n]
              [] a = "Int32"  -> IF IsS32(v.w) THEN [c |-> "val", val |-> v.w, n |-> v.n]
                                 ELSE [c |-> "overflow", val |-> <<>>, n |-> v.n]
              [] a = "SInt32" -> IF FitsU32(v.w) THEN [c |-> "val", val |-> UnZigZag(v.w), n |-> v.n]
                                 ELSE [c |-> "may", val |-> <<>>, n |-> v.n]
  ELSE LET w == IF AccWt(a) = 5 THEN 4 ELSE 8 IN
       IF Len(p) - r < w THEN [c |-> "anyerr", val |-> <<>>, n |-> 0]
       ELSE [c |-> "val", val |-> Slice(p, r, r + w), n |-> w]

\* all elements of base type a in payload p from cursor r on
RECURSIVE Elems(_, _, _)
Elems(p, r, a) ==
  IF r >= Len(p) THEN [c |-> "val", vals |-> <<>>]
  ELSE LET el == ElemAt(p, r, a) IN
       IF el.c # "val" THEN [c |-> el.c, vals |-> <<>>]
       ELSE LET rest == Elems(p, r + el.n, a) IN
            [c |-> rest.c, vals |-> IF rest.c = "val" THEN <<el.val>> \o rest.vals ELSE <<>>]

\* expansion of all occurrences for a numeric slice accessor
RECURSIVE Expand(_, _, _)
Expand(occ, i, a) ==
  IF i > Len(occ) THEN [c |-> "val", vals |-> <<>>]
  ELSE LET here == Elems(occ[i].pay, 0, a) IN
       IF here.c # "val" THEN [c |-> here.c, vals |-> <<>>]
       ELSE LET rest == Expand(occ, i + 1, a) IN
            [c |-> rest.c, vals |-> IF rest.c = "val" THEN here.vals \o rest.vals ELSE <<>>]

\* what accessor acc on tag of a result decoded ("must") from b under def has to return
AccRef(b, def, acc, tag) ==
  LET t == Abs(tag) IN
  IF ~Declared(def, t) THEN ErrC("notdefined")
  ELSE LET occ == Occs(b, t) IN
       IF occ = <<>> THEN ErrC("notfound")
       ELSE LET wt == occ[1].wt
                a  == Base(acc) IN
            IF acc \in ScalarAccs
            THEN IF wt # AccWt(a) THEN ErrC("mismatch")
                 ELSE IF AccWt(a) = 2 THEN Exp("val", occ[Len(occ)].pay, <<>>)
                 ELSE LET el == ElemAt(occ[Len(occ)].pay, 0, a) IN
                      IF el.c = "val" THEN Exp("val", el.val, <<>>) ELSE ErrC(el.c)
            ELSE IF acc = "BytesS"
                 THEN IF wt = 2 THEN Exp("val", <<>>, [i \in 1..Len(occ) |-> occ[i].pay]) ELSE May
            ELSE IF acc = "Strings"
                 THEN IF wt = 2 THEN Exp("val", <<>>, [i \in 1..Len(occ) |-> occ[i].pay]) ELSE ErrC("mismatch")
            ELSE IF wt # AccWt(a) /\ wt # 2 THEN ErrC("mismatch")
            ELSE LET ex == Expand(occ, 1, a) IN
                 IF ex.c = "val" THEN Exp("val", <<>>, ex.vals) ELSE ErrC(ex.c)

\* NestedResult(tag) on a result decoded from b under def: [class, bufs (payloads to decode), def]
NestedRef(b, def, tag, all) ==
  LET t == Abs(tag) IN
  IF def.nested = <<>> THEN [class |-> "notdefined", bufs |-> <<>>]
  ELSE IF ~Declared(def, t) THEN [class |-> "notdefined", bufs |-> <<>>]
  ELSE IF ~HasNested(def, t) THEN [class |-> "undeclared", bufs |-> <<>>]     \* not-defined or nesting-not-defined
  ELSE LET occ == Occs(b, t) IN
       IF occ = <<>> THEN [class |-> "notfound", bufs |-> <<>>]
       ELSE IF occ[1].wt # 2 THEN [class |-> "mismatch", bufs |-> <<>>]     \* NestedResult and NestedResults alike
       ELSE [class |-> "val", bufs |-> IF all THEN [i \in 1..Len(occ) |-> occ[i].pay] ELSE <<occ[Len(occ)].pay>>]

\* FieldData(path...) followed by accessor acc: walk the nested definitions along the path
RECURSIVE PathRef(_, _, _, _)
PathRef(b, def, path, acc) ==
  IF Len(path) = 0 THEN ErrC("anyerr")          \* FieldData() needs at least one tag
  ELSE IF Len(path) = 1 THEN AccRef(b, def, acc, path[1])
  ELSE LET n == NestedRef(b, def, path[1], FALSE) IN
       IF n.class # "val" THEN ErrC(n.class)
       ELSE LET nb == n.bufs[1]
                nd == NestedDef(def, Abs(path[1])) IN
            IF nb = <<>> THEN (IF Declared(nd, Abs(path[Len(path)])) \/ Len(path) > 2 THEN May ELSE May)
            ELSE IF DecodeClass(nb, nd) # "must" THEN May
            ELSE PathRef(nb, nd, Tail(path), acc)

\* Range: the set of declared tags, each with a presence flag
RangeRef(b, def) == { <<def.tags[i], IF Occs(b, def.tags[i]) = <<>> THEN 0 ELSE 1>> : i \in 1..Len(def.tags) }

\* Does an observed accessor outcome o = [st, val, vals] match expectation x ?
Matches(x, o) ==
  /\ o.st # "panic"
  /\ CASE x.class = "val"    -> o.st = "ok" /\ o.val = x.val /\ o.vals = x.vals
       [] x.class = "may"    -> TRUE
       [] x.class = "anyerr" -> o.st # "ok"
       [] x.class = "undeclared" -> o.st \in {"notdefined", "nonesting"}
       [] OTHER              -> o.st = x.class
=============================================================================
