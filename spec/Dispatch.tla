------------------------------ MODULE Dispatch ------------------------------
(***************************************************************************)
(* The runtime-agnostic API as a dispatcher (C11).                         *)
(*                                                                         *)
(* (a) The process-wide type cache of MsgType: every goroutine does        *)
(*     Load(t); on a miss Deduce(t); Store(t, r); return r.  Deduce is a   *)
(*     function of the type only, so whatever the interleaving every call  *)
(*     returns Class[t] and a cache entry never changes once set.  A       *)
(*     mutant that stores before deducing (StoreFirst) is kept as an       *)
(*     expected-violation configuration.                                   *)
(* (b) The decision table: for a value of flavour f the call has to give   *)
(*     the owning runtime's result; for values no runtime owns the         *)
(*     documented error / zero / nil / false - and never a panic, Reset    *)
(*     (documented to panic) excepted.  ExplainsDispatch judges one        *)
(*     recorded call.                                                      *)
(***************************************************************************)
EXTENDS Integers, Sequences, FiniteSets

CONSTANTS G, Types, Class, StoreFirst
\* Class[t] \in {"gogo", "googlev1", "google", "unknown"}

VARIABLES cache, pc, cur, ret, seen
vars == <<cache, pc, cur, ret, seen>>
NONE == "none"

Init == /\ cache = [t \in Types |-> NONE]
        /\ pc = [g \in 1..G |-> "idle"] /\ cur = [g \in 1..G |-> CHOOSE t \in Types : TRUE]
        /\ ret = [g \in 1..G |-> NONE]
        /\ seen = [t \in Types |-> {}]            \* every value ever stored for t

Call(g, t) == pc[g] = "idle" /\ pc' = [pc EXCEPT ![g] = "load"] /\ cur' = [cur EXCEPT ![g] = t] /\ ret' = [ret EXCEPT ![g] = NONE] /\ UNCHANGED <<cache, seen>>
Load(g)    == /\ pc[g] = "load"
              /\ IF cache[cur[g]] # NONE
                 THEN pc' = [pc EXCEPT ![g] = "idle"] /\ ret' = [ret EXCEPT ![g] = cache[cur[g]]]
                 ELSE pc' = [pc EXCEPT ![g] = IF StoreFirst THEN "prestore" ELSE "deduce"] /\ UNCHANGED ret
              /\ UNCHANGED <<cache, cur, seen>>
\* mutant: publish a placeholder before the classification is known
PreStore(g) == pc[g] = "prestore" /\ cache' = [cache EXCEPT ![cur[g]] = "unknown"] /\ seen' = [seen EXCEPT ![cur[g]] = @ \cup {"unknown"}]
               /\ pc' = [pc EXCEPT ![g] = "deduce"] /\ UNCHANGED <<cur, ret>>
Deduce(g)  == pc[g] = "deduce" /\ ret' = [ret EXCEPT ![g] = Class[cur[g]]] /\ pc' = [pc EXCEPT ![g] = "store"] /\ UNCHANGED <<cache, cur, seen>>
Store(g)   == pc[g] = "store" /\ cache' = [cache EXCEPT ![cur[g]] = ret[g]] /\ seen' = [seen EXCEPT ![cur[g]] = @ \cup {ret[g]}]
              /\ pc' = [pc EXCEPT ![g] = "idle"] /\ UNCHANGED <<cur, ret>>

Next == \E g \in 1..G : (\E t \in Types : Call(g, t)) \/ Load(g) \/ PreStore(g) \/ Deduce(g) \/ Store(g)
Spec == Init /\ [][Next]_vars

ResultIsDeduce == \A g \in 1..G : (pc[g] = "idle" /\ ret[g] # NONE) => ret[g] = Class[cur[g]]
CacheStable    == \A t \in Types : Cardinality(seen[t]) <= 1 /\ (cache[t] # NONE => cache[t] = Class[t])

\* Liveness (no lock, no wait in the protocol): under weak fairness of each goroutine's own steps every started classification returns,
\* and from then on the type is answered from the cache (CachedForGood).  Checked by TLC with the fair specification (MCDispatch_live.cfg).
Step(g) == Load(g) \/ PreStore(g) \/ Deduce(g) \/ Store(g)
FairSpec == Spec /\ \A g \in 1..G : WF_vars(Step(g))
EveryCallReturns == \A g \in 1..G : (pc[g] # "idle") ~> (pc[g] = "idle" /\ ret[g] = Class[cur[g]])
CachedForGood    == \A t \in Types : [](cache[t] # NONE => [](cache[t] = Class[t]))

\* (b) the decision table lives in DispatchTable.tla (no variables), shared with TraceDispatch.
=============================================================================
