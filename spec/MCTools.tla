------------------------------ MODULE MCTools ------------------------------
(***************************************************************************)
(* Model-checking root for Tools (C20): every annotated-hex text up to     *)
(* MaxLen symbols over six symbol classes is built one symbol at a time;   *)
(* in every state the declarative definition HexRef and the streaming      *)
(* automaton (HexStep/HexFinal) must agree - two independent formulations  *)
(* of "the bytes denoted by the hex digits outside comments".              *)
(***************************************************************************)
EXTENDS Tools, TLC
CONSTANT MaxLen
Symbols == {10, 5, HexWS, HexLF, HexSemi, HexOther}
VARIABLES text, st
vars == <<text, st>>
Init == text = <<>> /\ st = HexInit
Next == /\ Len(text) < MaxLen
        /\ \E c \in Symbols : text' = Append(text, c) /\ st' = HexStep(st, c)
Spec == Init /\ [][Next]_vars
Agree == HexRef(text) = HexFinal(st)
\* comments never contribute: appending symbols after a ';' on the last line does not change the result
CommentInert == (st.cm /\ Len(text) > 0 /\ text[Len(text)] # HexLF) =>
                   HexRef(text) = HexRef(SubSeq(text, 1, Len(text) - 1)) \/ text[Len(text)] = HexSemi
=============================================================================
