------------------------------ MODULE Ownership ------------------------------
(***************************************************************************)
(* What the pooling of lazyproto results has to look like from a distance  *)
(* (C14, C15): every result object is either in a pool or owned by exactly *)
(* one goroutine; a goroutine takes objects that are in a pool (Decode:    *)
(* one; NestedResult(s): some more) and gives ALL of its objects back at   *)
(* once (Close).  LazyPool - the implementation-shaped model, with its     *)
(* slices, closers and trimming - refines this protocol under the mapping  *)
(*     own[g]  = the objects held with holder g,                           *)
(*     pooled  = the objects not held                                      *)
(* (checked by TLC: MCLazyPool_refine.cfg, property Abs!Spec); that the    *)
(* protocol keeps the owned sets disjoint for ANY number of goroutines and *)
(* objects is proved with TLAPS (proofs/OwnershipProof.tla).               *)
(***************************************************************************)
EXTENDS Integers

CONSTANTS G, Obj

VARIABLES own, pooled
ovars == <<own, pooled>>

Init == own = [g \in 1..G |-> {}] /\ pooled = Obj

\* goroutine g takes a non-empty set of pooled objects
Take(g, S) == /\ S # {} /\ S \subseteq pooled
              /\ own' = [own EXCEPT ![g] = @ \cup S]
              /\ pooled' = pooled \ S
\* goroutine g gives back everything it owns
Release(g) == /\ own[g] # {}
              /\ pooled' = pooled \cup own[g]
              /\ own' = [own EXCEPT ![g] = {}]

Next == \E g \in 1..G : (\E S \in SUBSET pooled : Take(g, S)) \/ Release(g)
Spec == Init /\ [][Next]_ovars

TypeOK    == own \in [1..G -> SUBSET Obj] /\ pooled \subseteq Obj
Disjoint  == \A g1, g2 \in 1..G : g1 # g2 => own[g1] \cap own[g2] = {}
NotPooled == \A g \in 1..G : own[g] \cap pooled = {}
Conserved == \A o \in Obj : o \in pooled \/ \E g \in 1..G : o \in own[g]
=============================================================================
