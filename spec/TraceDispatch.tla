---------------------------- MODULE TraceDispatch ----------------------------
(* Trace validation for C11 (dispatch events), C12 (extension scripts) and C18 (JSON adapter events). *)
EXTENDS DispatchTable, Json, TLC
Trace == ndJsonDeserialize("trace.ndjson")
VARIABLES l, bad, desync, xs, mfail
tvars == <<l, bad, desync, xs, mfail>>
TInit == l = 1 /\ bad = <<>> /\ desync = <<>> /\ xs = <<0, 0, 0>> /\ mfail = <<>>
\* ---- C12: extension scripts ----------------------------------------------------------------
\* ext = abstract extension state of the message under test: slot -> value id (0 = unset)
XApply(x, op) == CASE op[1] = "set"      -> [x EXCEPT ![op[2]] = op[3]]
                   [] op[1] = "clear"    -> [x EXCEPT ![op[2]] = 0]
                   [] op[1] = "clearall" -> [s \in 1..3 |-> 0]
                   [] OTHER -> x
ExtOK(x, e) ==                      \* x = the state the model reaches by this step
  /\ e.st = "ok"
  /\ e.fnum = 1                     \* ExtensionFieldNumber returned the declared numbers
  /\ \A s \in 1..3 :
        /\ e.has[s] = (IF x[s] # 0 THEN 1 ELSE 0)
        /\ e.rthas[s] = e.has[s]    \* the owning runtime's own HasExtension agrees
        /\ x[s] # 0 => e.getv[s] = x[s]
        /\ x[s] = 0 => e.getsame[s] = 1     \* unset: whatever the owning runtime's GetExtension gives
        /\ e.inb[s] # -1 => e.inb[s] = (IF x[s] # 0 THEN 1 ELSE 0)  \* present in the marshaled bytes iff set
  /\ {e.rng[i] : i \in 1..Len(e.rng)} = {s \in 1..3 : x[s] # 0} /\ Len(e.rng) = Cardinality({s \in 1..3 : x[s] # 0})
\* a descriptor of another runtime: Has is false, Get and Set fail, the message is untouched
\* csproto.Marshal of the message failed or panicked, so "appears in the marshaled bytes" could not be observed
MarshalFailed(e) == \E s \in 1..3 : e.inb[s] = -1
\* a value no runtime owns: Has is false, Get / Set / Range report an error (no callback), ClearAll is a no-op, ClearExtension panics (documented)
ExtUnsOK(e) == e.st = "ok" /\ e.has0 = 1 /\ e.geterr = 1 /\ e.seterr = 1 /\ e.same = 1 /\ e.x1 = 1 /\ e.errc = 1
\* ExtensionFieldNumber of a run-time built protoreflect.ExtensionType is its number; of anything that is no descriptor: 0 and an error
ExtNumOK(e) == e.st = "ok" /\ e.same = 1 /\ e.errc = 1
\* values of extensions through the generated code (family "extval"); e.op names the property the run records for:
\*   C04 Size = len(Marshal) and MarshalTo fills exactly Size() bytes with the same bytes
\*   C05 the owning runtime decodes the generated Marshal's bytes to an equal message (Marshal of a valid message succeeds)
\*   C06 the generated Unmarshal decodes the owning runtime's bytes to an equal message
ExtRtOK(e) == CASE e.op = "C04" -> e.st # "panic" /\ (e.st = "ok" => (e.szok = 1 /\ e.mto = 1))
                [] e.op = "C05" -> e.st = "ok" /\ e.x1 = 1
                [] e.op = "C06" -> e.st # "panic" /\ e.x2 = 1
                [] e.op = "C08" -> e.st # "panic" /\ e.x2 = 1          \* mutated bytes: no panic; equal whenever both accept
                [] OTHER -> FALSE
ExtMisOK(e) == e.has0 = 1 /\ e.geterr = 1 /\ e.seterr = 1 /\ e.unchanged = 1 /\ e.st # "panic"

\* ---- C18: JSON adapters -------------------------------------------------------------------
JsonOK(e) ==
  IF e.nilmsg = 2 THEN e.st = "err"                                    \* a non-nil value no runtime owns: an error, not a panic
  ELSE IF e.dir = "marshal"
  THEN IF e.nilmsg = 1 THEN e.st = "ok" /\ e.outnil = 1
       ELSE /\ e.st = "ok" /\ e.valid = 1
            /\ e.stab = 1                                              \* earlier results are untouched by this call
            /\ e.rt1 = 1 /\ e.rt2 = 1                                  \* accepted by the adapter and by the runtime's own decoder, equal message
            /\ e.hasenum = 1 => e.enumasnum = e.enumnums
            /\ e.haszero = 1 => e.zeroemitted = e.emitzero
            /\ (e.indent # 0 /\ e.nonempty = 1) => (e.multiline = 1 /\ e.prefixok = 1)
            /\ e.indent = 0 => e.multiline = 0
  ELSE IF e.nilmsg = 1 THEN e.st = "err"
       ELSE LET accept == (e.unkkey = 1 => e.allowunk = 1) /\ (e.missreq = 1 => (e.isv2 = 1 /\ e.allowpartial = 1)) IN
            IF accept THEN e.st = "ok" /\ e.eq = 1 ELSE e.st = "err"

TStep == /\ l <= Len(Trace)
         /\ LET e == Trace[l] IN
            /\ l' = l + 1
            /\ CASE e.c = "disp" -> bad' = (IF ExplainsDispatch(e) THEN bad ELSE Append(bad, l)) /\ UNCHANGED <<desync, xs, mfail>>
                 [] e.c = "extnew" -> xs' = [s \in 1..3 |-> 0] /\ UNCHANGED <<bad, desync, mfail>>
                 [] e.c = "extop" -> /\ xs' = XApply(xs, e.op)
                                     /\ bad' = (IF ExtOK(XApply(xs, e.op), e) THEN bad ELSE Append(bad, l))
                                     /\ mfail' = (IF MarshalFailed(e) THEN Append(mfail, l) ELSE mfail)
                                     /\ UNCHANGED desync
                 [] e.c = "extmis" -> bad' = (IF ExtMisOK(e) THEN bad ELSE Append(bad, l)) /\ UNCHANGED <<desync, xs, mfail>>
                 [] e.c = "extrt" -> bad' = (IF ExtRtOK(e) THEN bad ELSE Append(bad, l)) /\ UNCHANGED <<desync, xs, mfail>>
                 [] e.c = "extuns" -> bad' = (IF ExtUnsOK(e) THEN bad ELSE Append(bad, l)) /\ UNCHANGED <<desync, xs, mfail>>
                 [] e.c = "extnum" -> bad' = (IF ExtNumOK(e) THEN bad ELSE Append(bad, l)) /\ UNCHANGED <<desync, xs, mfail>>
                 [] e.c = "json" -> bad' = (IF JsonOK(e) THEN bad ELSE Append(bad, l)) /\ UNCHANGED <<desync, xs, mfail>>
                 [] OTHER -> desync' = Append(desync, l) /\ UNCHANGED <<bad, xs, mfail>>
TSpec == TInit /\ [][TStep]_tvars
Report == l = Len(Trace) + 1 => JsonSerialize("result.json", [n |-> Len(Trace), bad |-> bad, drift |-> <<>>, desync |-> desync, mfail |-> mfail])
=============================================================================
