---------------------------- MODULE TraceDispatch ----------------------------
(* Trace validation for C11 (dispatch events), C12 (extension scripts) and C18 (JSON adapter events). *)
EXTENDS DispatchTable, Json, TLC
Trace == ndJsonDeserialize("trace.ndjson")
VARIABLES l, bad, desync, xs, xl, xraw, mfail
tvars == <<l, bad, desync, xs, xl, xraw, mfail>>
TInit == l = 1 /\ bad = <<>> /\ desync = <<>> /\ xs = <<0, 0, 0>> /\ xl = 0 /\ xraw = FALSE /\ mfail = <<>>
\* ---- C12: extension scripts ----------------------------------------------------------------
\* ext = abstract extension state of the message under test: slot -> value id (0 = unset)
XApply(x, op) == CASE op[1] = "set"      -> [x EXCEPT ![op[2]] = op[3]]
                   [] op[1] = "clear"    -> [x EXCEPT ![op[2]] = 0]
                   [] op[1] = "clearall" -> [s \in 1..3 |-> 0]
                   [] OTHER -> x
\* the late-bound slot (Extensions.tla): its value, and whether it is still held in encoded form.  What a message SHOWS of it must not
\* depend on the representation, with one named deviation (LateDecodes): a legacy google-v1 message that carries csproto's generated
\* Unmarshal method cannot decode a field whose descriptor the generated code did not know (the runtime's late decoding goes through that
\* method, which ignores the resolver), so there a Get that meets the encoded form reports "missing" - exactly like the runtime's own
\* GetExtension on that message, which is what is required.
XLate(v, op) == CASE op[1] \in {"arrive", "setlate"} -> op[3]
                  [] op[1] \in {"clearlate", "clearall"} -> 0
                  [] OTHER -> v
LateDecodes(fl) == fl = "gogo"
XRaw(r, e) == CASE e.op[1] = "arrive" -> TRUE
                [] e.op[1] \in {"setlate", "clearlate", "clearall"} -> FALSE
                [] e.op[1] = "getlate" -> r /\ e.late[5] = 0        \* decoded by a Get that succeeded
                [] OTHER -> r
LateOK(v, raw, e) == e.late[1] # -1 =>            \* (-1: the flavour has no late binding, nothing was observed)
  LET has == IF v # 0 THEN 1 ELSE 0 IN
  /\ e.late[1] = has /\ e.late[2] = has    \* HasExtension, and the owning runtime's
  /\ (e.late[3] # -1 /\ has = 0) => e.late[3] = 0   \* once cleared it is not in the marshaled bytes (that it IS there while present is
                                                     \* C05's business: generated Marshal only knows the extensions declared in its own file)
  /\ e.late[4] = has                        \* RangeExtensions visits it iff present
  /\ e.late[5] # -1 =>                      \* a Get: the value (0: nothing), and the same answer as the runtime's own GetExtension
        /\ e.late[6] = 1
        /\ IF raw /\ ~LateDecodes(e.fl) THEN e.late[5] \in {0, v} ELSE e.late[5] = v
ExtOK(x, e) ==                      \* x = the state the model reaches by this step
  /\ e.st = "ok"
  /\ e.fnum = 1                     \* ExtensionFieldNumber returned the declared numbers
  /\ \A s \in 1..3 :
        /\ e.has[s] = (IF x[s] # 0 THEN 1 ELSE 0)
        /\ e.rthas[s] = e.has[s]    \* the owning runtime's own HasExtension agrees
        /\ x[s] # 0 => e.getv[s] = x[s]
        /\ x[s] = 0 => e.getsame[s] = 1     \* unset: whatever the owning runtime's GetExtension gives
        /\ e.inb[s] # -1 => e.inb[s] = (IF x[s] # 0 THEN 1 ELSE 0)  \* present in the marshaled bytes iff set
  /\ {e.rng[i] : i \in 1..Len(e.rng)} = {s \in 1..3 : x[s] # 0} /\ Len(e.rng) = Cardinality({s \in 1..3 : x[s] # 0})
\* a descriptor of another runtime: Has is false, Get and Set fail, the message is untouched
\* csproto.Marshal of the message failed or panicked, so "appears in the marshaled bytes" could not be observed
MarshalFailed(e) == \E s \in 1..3 : e.inb[s] = -1
\* a value no runtime owns: Has is false, Get / Set / Range report an error (no callback), ClearAll is a no-op, ClearExtension panics (documented)
ExtUnsOK(e) == e.st = "ok" /\ e.has0 = 1 /\ e.geterr = 1 /\ e.seterr = 1 /\ e.same = 1 /\ e.x1 = 1 /\ e.errc = 1
\* ExtensionFieldNumber of a run-time built protoreflect.ExtensionType is its number; of anything that is no descriptor: 0 and an error
ExtNumOK(e) == e.st = "ok" /\ e.same = 1 /\ e.errc = 1
\* values of extensions through the generated code (family "extval"); e.op names the property the run records for:
\*   C04 Size = len(Marshal) and MarshalTo fills exactly Size() bytes with the same bytes
\*   C05 the owning runtime decodes the generated Marshal's bytes to an equal message (Marshal of a valid message succeeds)
\*   C06 the generated Unmarshal decodes the owning runtime's bytes to an equal message
ExtRtOK(e) == CASE e.op = "C04" -> e.st # "panic" /\ (e.st = "ok" => (e.szok = 1 /\ e.mto = 1))
                [] e.op = "C05" -> e.st = "ok" /\ e.x1 = 1
                [] e.op = "C06" -> e.st # "panic" /\ e.x2 = 1
                [] e.op = "C08" -> e.st # "panic" /\ e.x2 = 1          \* mutated bytes: no panic; equal whenever both accept
                [] OTHER -> FALSE
\* a late-bound extension (decoded by the owning runtime before its descriptor was known, still in encoded form): Has before and after
\* Clear / ClearAll, Get, and the presence of the field in the marshaled bytes afterwards all equal the owning runtime's own answers on an
\* identical message - and after the clearing operation the extension is absent (has[2] = 0, not in the bytes)
ExtLateOK(e) == /\ e.st = "ok"
                /\ e.has = e.rthas /\ e.getsame[1] = 1
                /\ e.x1 = 1                          \* RangeExtensions visits it iff the runtime's enumeration lists it; no panic
                /\ e.inb[1] # -1 /\ e.inb[1] = e.inb[2]
                /\ e.has[2] = 0 /\ e.inb[1] = 0
ExtMisOK(e) == e.has0 = 1 /\ e.geterr = 1 /\ e.seterr = 1 /\ e.unchanged = 1 /\ e.st # "panic"

\* ---- C18: JSON adapters -------------------------------------------------------------------
JsonOK(e) ==
  IF e.nilmsg = 2 THEN e.st = "err"                                    \* a non-nil value no runtime owns: an error, not a panic
  ELSE IF e.dir = "marshal"
  THEN IF e.nilmsg = 1 THEN e.st = "ok" /\ e.outnil = 1
       ELSE /\ e.st = "ok" /\ e.valid = 1
            /\ e.stab = 1                                              \* earlier results are untouched by this call
            /\ e.rt1 = 1 /\ e.rt2 = 1                                  \* accepted by the adapter and by the runtime's own decoder, equal message
            /\ e.hasenum = 1 => e.enumasnum = e.enumnums
            /\ e.haszero = 1 => e.zeroemitted = e.emitzero
            /\ (e.indent # 0 /\ e.nonempty = 1) => (e.multiline = 1 /\ e.prefixok = 1)
            /\ e.indent = 0 => e.multiline = 0
  ELSE IF e.nilmsg = 1 THEN e.st = "err"
       ELSE LET accept == (e.unkkey = 1 => e.allowunk = 1) /\ (e.missreq = 1 => (e.isv2 = 1 /\ e.allowpartial = 1)) IN
            IF accept THEN e.st = "ok" /\ e.eq = 1 ELSE e.st = "err"

TStep == /\ l <= Len(Trace)
         /\ LET e == Trace[l] IN
            /\ l' = l + 1
            /\ CASE e.c = "disp" -> bad' = (IF ExplainsDispatch(e) THEN bad ELSE Append(bad, l)) /\ UNCHANGED <<desync, xs, xl, xraw, mfail>>
                 [] e.c = "extnew" -> xs' = [s \in 1..3 |-> 0] /\ xl' = 0 /\ xraw' = FALSE /\ UNCHANGED <<bad, desync, mfail>>
                 [] e.c = "extop" -> /\ xs' = XApply(xs, e.op) /\ xl' = XLate(xl, e.op) /\ xraw' = XRaw(xraw, e)
                                     /\ bad' = (IF ExtOK(XApply(xs, e.op), e) /\ LateOK(XLate(xl, e.op), xraw, e) THEN bad ELSE Append(bad, l))
                                     /\ mfail' = (IF MarshalFailed(e) THEN Append(mfail, l) ELSE mfail)
                                     /\ UNCHANGED desync
                 [] e.c = "extmis" -> bad' = (IF ExtMisOK(e) THEN bad ELSE Append(bad, l)) /\ UNCHANGED <<desync, xs, xl, xraw, mfail>>
                 [] e.c = "extrt" -> bad' = (IF ExtRtOK(e) THEN bad ELSE Append(bad, l)) /\ UNCHANGED <<desync, xs, xl, xraw, mfail>>
                 [] e.c = "extlate" -> bad' = (IF ExtLateOK(e) THEN bad ELSE Append(bad, l)) /\ UNCHANGED <<desync, xs, xl, xraw, mfail>>
                 [] e.c = "extuns" -> bad' = (IF ExtUnsOK(e) THEN bad ELSE Append(bad, l)) /\ UNCHANGED <<desync, xs, xl, xraw, mfail>>
                 [] e.c = "extnum" -> bad' = (IF ExtNumOK(e) THEN bad ELSE Append(bad, l)) /\ UNCHANGED <<desync, xs, xl, xraw, mfail>>
                 [] e.c = "json" -> bad' = (IF JsonOK(e) THEN bad ELSE Append(bad, l)) /\ UNCHANGED <<desync, xs, xl, xraw, mfail>>
                 [] OTHER -> desync' = Append(desync, l) /\ UNCHANGED <<bad, xs, xl, xraw, mfail>>
TSpec == TInit /\ [][TStep]_tvars
Report == l = Len(Trace) + 1 => JsonSerialize("result.json", [n |-> Len(Trace), bad |-> bad, drift |-> <<>>, desync |-> desync, mfail |-> mfail])
=============================================================================
