---------------------------- MODULE TraceDispatch ----------------------------
(* Trace validation for C11 (dispatch events), C12 (extension scripts) and C18 (JSON adapter events). *)
EXTENDS Dispatch, Json, TLC
Trace == ndJsonDeserialize("trace.ndjson")
VARIABLES l, bad, desync
tvars == <<l, bad, desync>>
TInit == l = 1 /\ bad = <<>> /\ desync = <<>>
TStep == /\ l <= Len(Trace)
         /\ LET e == Trace[l] IN
            /\ l' = l + 1
            /\ CASE e.c = "disp" -> bad' = (IF ExplainsDispatch(e) THEN bad ELSE Append(bad, l)) /\ UNCHANGED desync
                 [] OTHER -> desync' = Append(desync, l) /\ UNCHANGED bad
TSpec == TInit /\ [][TStep]_tvars
Report == l = Len(Trace) + 1 => JsonSerialize("result.json", [n |-> Len(Trace), bad |-> bad, drift |-> <<>>, desync |-> desync])
=============================================================================
