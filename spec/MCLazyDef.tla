----------------------------- MODULE MCLazyDef -----------------------------
(* Script generator and model-level sanity for LazyDef: every builder script of bounded depth over a small tag   *)
(* domain (valid, negative, and one invalid tag per configuration).  The scripts are replayed on the real Def.    *)
EXTENDS LazyDef, TLC
CONSTANTS Good, Bad, Depth           \* Good: two valid tags; Bad: one invalid tag
ABSENT == -999
VARIABLES d, hist
vars == <<d, hist>>
Init == d = Empty /\ hist = <<>>
Handles == {<<>>} \cup d.nest
First == CHOOSE g \in Good : TRUE
Second == CHOOSE g \in Good : g # First
TagDom == Good \cup {-First, Bad}
Pad(h) == IF Len(h) = 0 THEN <<ABSENT, ABSENT>> ELSE IF Len(h) = 1 THEN <<h[1], ABSENT>> ELSE <<h[1], h[2]>>
\* op = <<kind, h1, h2, t, n1, n2>>
DoTags(h, t, u) == /\ d' = TagsOn(d, h, IF u = ABSENT THEN <<t>> ELSE <<t, u>>)
                   /\ hist' = Append(hist, <<"tags", Pad(h)[1], Pad(h)[2], t, u, ABSENT>>)
DoNested(h, t, nts) == /\ d' = NestedOn(d, h, t, nts)
                       /\ hist' = Append(hist, <<"nested", Pad(h)[1], Pad(h)[2], t,
                                                 IF Len(nts) >= 1 THEN nts[1] ELSE ABSENT, IF Len(nts) >= 2 THEN nts[2] ELSE ABSENT>>)
Next == /\ Len(hist) < Depth
        /\ \E h \in {x \in Handles : Len(x) <= 2} :
             \/ \E t \in TagDom, u \in {ABSENT, Second} : DoTags(h, t, u)
             \/ Len(h) <= 1 /\ \E t \in TagDom, nts \in {<<>>, <<First>>, <<First, Second>>, <<Bad>>} : DoNested(h, t, nts)
Spec == Init /\ [][Next]_vars

AlwaysWellFormed == WellFormed(d)
\* validity is exactly "no invalid tag anywhere", and replacing the offending mapping restores it
ValidIffNoBad == (TagBad(Bad) => (Valid(d) = (\A p \in d.paths : \A i \in 1..Len(p) : p[i] # Bad))) /\ (~TagBad(Bad) => Valid(d))
LastOpVisible == hist # <<>> =>
   LET op == hist[Len(hist)]
       h == IF op[2] = ABSENT THEN <<>> ELSE IF op[3] = ABSENT THEN <<op[2]>> ELSE <<op[2], op[3]>> IN
   /\ GetRef(d, h, op[4]).ok
   /\ GetRef(d, h, op[4]).nested = (op[1] = "nested")
EmitScripts == Len(hist) = Depth => PrintT(<<"DEFSCRIPT", hist>>)
=============================================================================
