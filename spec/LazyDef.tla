------------------------------ MODULE LazyDef ------------------------------
(***************************************************************************)
(* lazyproto definitions (Def) as data: the builder API NewDef / Tags /    *)
(* NestedTag / Get and Validate, and the constructor NewDecoder's          *)
(* acceptance (C13: "every definition - flat, nested to any depth, with    *)
(* negative tags for raw access").                                         *)
(*                                                                         *)
(* A Def is a finite tree.  It is represented by the set of its paths      *)
(* (sequences of tags) plus the subset of paths whose value is a nested    *)
(* Def (possibly empty) rather than nil.  Tags(...) and NestedTag(...)     *)
(* REPLACE whatever the tag mapped to, including a whole sub-tree.         *)
(***************************************************************************)
EXTENDS Integers, Sequences, FiniteSets

Empty == [paths |-> {}, nest |-> {}]

IsPrefix(p, q) == Len(p) <= Len(q) /\ SubSeq(q, 1, Len(p)) = p
\* a handle is the path of a nested Def; <<>> is the root
HandleOK(d, h) == h = <<>> \/ h \in d.nest

\* remove the mapping of h \o <<t>> together with everything below it
Drop(d, h, t) == LET p == Append(h, t) IN
                 [paths |-> {q \in d.paths : ~IsPrefix(p, q)}, nest |-> {q \in d.nest : ~IsPrefix(p, q)}]
RECURSIVE TagsOn(_, _, _)
TagsOn(d, h, ts) == IF ts = <<>> THEN d
                    ELSE LET x == Drop(d, h, Head(ts)) IN
                         TagsOn([paths |-> x.paths \cup {Append(h, Head(ts))}, nest |-> x.nest], h, Tail(ts))
NestedOn(d, h, t, nts) == LET x == Drop(d, h, t)
                              y == [paths |-> x.paths \cup {Append(h, t)}, nest |-> x.nest \cup {Append(h, t)}] IN
                          TagsOn(y, Append(h, t), nts)

\* Validity of a tag k (judged on |k|, negative tags being the raw-access form).  The Def documentation excludes 0, numbers beyond
\* 2^29-1 and the reserved range 19000-19999; protowire.Number.IsValid, which Validate calls, stopped rejecting the reserved range
\* in recent google.golang.org/protobuf releases.  The property is silent on the reserved range, so it is left open ("may"):
\* TagBad = certainly invalid, TagGood = certainly valid.
Abs(k) == IF k < 0 THEN -k ELSE k
Reserved(k) == Abs(k) >= 19000 /\ Abs(k) <= 19999
TagBad(k) == Abs(k) < 1 \/ Abs(k) > 536870911
TagGood(k) == ~TagBad(k) /\ ~Reserved(k)
TagOK(k) == ~TagBad(k)
AllTags(d) == UNION {{p[i] : i \in 1..Len(p)} : p \in d.paths}
MustBeValid(d) == \A k \in AllTags(d) : TagGood(k)
MustBeInvalid(d) == \E k \in AllTags(d) : TagBad(k)
Valid(d) == ~MustBeInvalid(d)

\* structural sanity: every path hangs under nested Defs
WellFormed(d) == /\ d.nest \subseteq d.paths
                 /\ \A p \in d.paths : Len(p) >= 1 /\ (Len(p) > 1 => SubSeq(p, 1, Len(p) - 1) \in d.nest)

\* Get(t) on handle h: (value is nested?, mapping exists?)
GetRef(d, h, t) == [ok |-> Append(h, t) \in d.paths, nested |-> Append(h, t) \in d.nest]

\* NewDecoder(def, WithMaxBufferSize(n) | WithBufferFilterFunc(nil)) succeeds iff Validate succeeds and the options are valid
OptionsOK(maxbuf, nilfilter) == maxbuf >= -1 /\ ~nilfilter      \* -1 = option not given
=============================================================================
