---------------------------- MODULE MCRoundTrip ----------------------------
(***************************************************************************)
(* Model-checking root for C01/C02: a field is written by the encoder      *)
(* (requirement: the canonical encoding, Encoder!CanonOf) into a buffer    *)
(* sized by the size helpers' closed forms, then read back by the decoder  *)
(* (requirement: Decoder!RefItem).  TLC checks, for every (kind, field     *)
(* number, value) of the boundary domain and both decoder modes, that the  *)
(* specification itself is closed under the round trip: the bytes fill the *)
(* predicted size exactly, the key and the value are "must" items, their   *)
(* values are the ones written and the cursor ends at the end of the       *)
(* buffer; and that the encoding is minimal (CanonMinimal).                *)
(***************************************************************************)
EXTENDS Decoder, TLC

CONSTANTS FNs, MaxList

VARIABLES kind, fn, packed, val, vals, ebuf, off, pc, got
vars == <<kind, fn, packed, val, vals, ebuf, off, pc, got>>

Pow2Word(k) == [i \in 1..10 |-> IF i = (k \div 7) + 1 THEN 2 ^ (k % 7) ELSE 0]      \* 2^k, k in 0..63
\* 2^k - 1: all digits below are 127, the digit holding bit k has 2^(k%7) - 1
Pow2M1(k)   == [i \in 1..10 |-> IF i < (k \div 7) + 1 THEN 127
                                ELSE IF i = (k \div 7) + 1 THEN 2 ^ (k % 7) - 1 ELSE 0]
AllOnes == Not(W0)

Words64 == { Pow2Word(k) : k \in 0..63 } \cup { Pow2M1(k) : k \in 0..63 } \cup {AllOnes, Not(NatWord(1)), Not(NatWord(127)), Not(NatWord(128))}
WordsS32 == { w \in Words64 : IsS32(w) } \cup { SExt32(Low32(Pow2Word(31))), Not(Pow2M1(31)) \* -2^31
                                              , SExt32(Low32(Not(Pow2M1(30)))) }
WordsU32 == { w \in Words64 : FitsU32(w) }
Fix4 == { <<0,0,0,0>>, <<1,0,0,0>>, <<255,255,255,255>>, <<0,0,0,128>>, <<1,0,192,127>>, <<0,0,128,127>>, <<0,0,128,255>>, <<1,2,3,4>> }
Fix8 == { <<0,0,0,0,0,0,0,0>>, <<1,0,0,0,0,0,0,0>>, <<255,255,255,255,255,255,255,255>>, <<0,0,0,0,0,0,0,128>>,
          <<1,0,0,0,0,0,248,127>>, <<0,0,0,0,0,0,240,127>>, <<1,2,3,4,5,6,7,8>> }
Strs == { <<>>, <<65>>, <<0>>, <<255, 128>>, [i \in 1..127 |-> i], [i \in 1..128 |-> 255 - i], [i \in 1..300 |-> i % 256] }

Vals(k) == CASE k = "bool" -> {W0, One}
             [] k \in {"int32", "enum", "sint32"} -> WordsS32
             [] k = "uint32" -> WordsU32
             [] k \in {"int64", "uint64", "sint64"} -> Words64
             [] k \in Fixed32Kinds -> Fix4
             [] k \in Fixed64Kinds -> Fix8
             [] OTHER -> Strs

\* a few list elements per kind for the packed encodings
Elems(k) == CASE k = "bool" -> {W0, One}
              [] k \in {"int32", "enum", "sint32"} -> {W0, One, AllOnes, Not(Pow2M1(31)), Pow2M1(31)}
              [] k = "uint32" -> {W0, NatWord(128), Pow2M1(32)}
              [] k \in {"int64", "uint64", "sint64"} -> {W0, NatWord(127), AllOnes, Pow2Word(63)}
              [] k \in Fixed32Kinds -> {<<0,0,0,0>>, <<1,0,192,127>>, <<255,255,255,255>>}
              [] OTHER -> {<<0,0,0,0,0,0,0,0>>, <<1,0,0,0,0,0,248,127>>}

Lists(k) == UNION { [1..n -> Elems(k)] : n \in 0..MaxList }

DecOp(k) == CASE k = "bool" -> "Bool" [] k \in {"int32", "enum"} -> "Int32" [] k = "int64" -> "Int64"
              [] k = "uint32" -> "UInt32" [] k = "uint64" -> "UInt64" [] k = "sint32" -> "SInt32"
              [] k = "sint64" -> "SInt64" [] k \in {"fixed32", "sfixed32"} -> "Fixed32" [] k = "float" -> "Float32"
              [] k \in {"fixed64", "sfixed64"} -> "Fixed64" [] k = "double" -> "Float64"
              [] k = "string" -> "String" [] OTHER -> "Bytes"
PackedDecOp(k) == CASE k = "bool" -> "PackedBool" [] k \in {"int32", "enum"} -> "PackedInt32" [] k = "int64" -> "PackedInt64"
              [] k = "uint32" -> "PackedUint32" [] k = "uint64" -> "PackedUint64" [] k = "sint32" -> "PackedSint32"
              [] k = "sint64" -> "PackedSint64" [] k \in {"fixed32", "sfixed32"} -> "PackedFixed32" [] k = "float" -> "PackedFloat32"
              [] k \in {"fixed64", "sfixed64"} -> "PackedFixed64" [] OTHER -> "PackedFloat64"

\* size predicted from the helpers' closed forms only
ElemSize(k, v) == IF k = "bool" THEN 1
                  ELSE IF k \in {"sint32", "sint64"} THEN SigLen(ZigZag(v))
                  ELSE IF k \in VarintKinds THEN SigLen(v)
                  ELSE IF k \in Fixed32Kinds THEN 4 ELSE IF k \in Fixed64Kinds THEN 8
                  ELSE SigLen(NatWord(Len(v))) + Len(v)
RECURSIVE SumSizes(_, _)
SumSizes(k, vs) == IF vs = <<>> THEN 0 ELSE ElemSize(k, Head(vs)) + SumSizes(k, Tail(vs))
Predicted == IF packed
             THEN IF vals = <<>> THEN 0
                  ELSE SigLen(KeyWord(fn, 0)) + SigLen(NatWord(SumSizes(kind, vals))) + SumSizes(kind, vals)
             ELSE SigLen(KeyWord(fn, 0)) + ElemSize(kind, val)

Init == /\ kind \in ScalarKinds /\ fn \in FNs
        /\ \/ packed = FALSE /\ val \in Vals(kind) /\ vals = <<>>
           \/ packed = TRUE /\ kind \notin LenKinds /\ val = <<>> /\ vals \in Lists(kind)
        /\ ebuf = <<>> /\ off = 0 /\ pc = "encode" /\ got = <<>>

Encode == /\ pc = "encode"
          /\ ebuf' = IF packed THEN CanonPacked(kind, fn, vals) ELSE CanonField(kind, fn, val)
          /\ pc' = IF packed /\ vals = <<>> THEN "done" ELSE "tag"
          /\ UNCHANGED <<kind, fn, packed, val, vals, off, got>>

DecodeTag == /\ pc = "tag"
             /\ LET it == RefTag(ebuf, off) IN
                /\ it.class = "must"               \* otherwise: stuck in "tag", caught by Progress
                /\ off' = off + it.len /\ got' = it.val /\ pc' = "value"
             /\ UNCHANGED <<kind, fn, packed, val, vals, ebuf>>

DecodeValue == /\ pc = "value"
               /\ LET op == IF packed THEN PackedDecOp(kind) ELSE DecOp(kind)
                      it == RefItem(ebuf, off, ModeSafe, op, [fn |-> 0, wt |-> 0]) IN
                  /\ it.class = "must"
                  /\ off' = off + it.len
                  /\ got' = IF packed THEN <<got, it.vals>> ELSE <<got, it.val>>
                  /\ pc' = "done"
               /\ UNCHANGED <<kind, fn, packed, val, vals, ebuf>>

Next == Encode \/ DecodeTag \/ DecodeValue
Spec == Init /\ [][Next]_vars

ExactFill == pc # "encode" => Len(ebuf) = Predicted
RoundTrip == pc = "done" /\ ebuf # <<>> =>
                /\ off = Len(ebuf)
                /\ got[1] = <<fn, IF packed THEN 2 ELSE KindWt(kind)>>
                /\ got[2] = IF packed THEN vals ELSE val
\* every behaviour reaches "done": a state in "tag"/"value" must have an enabled step
Progress  == pc \in {"tag", "value"} => ENABLED Next
\* no shorter varint denotes the same word
CanonMinimal == pc = "tag" /\ ~packed /\ kind \in VarintKinds =>
                  LET w == IF kind \in {"sint32", "sint64"} THEN ZigZag(val) ELSE val
                      e == EncVarint(w) IN
                  /\ VarintAt(e, 0).w = w /\ VarintAt(e, 0).n = Len(e) /\ VarintAt(e, 0).min
                  /\ (Len(e) > 1 => e[Len(e)] # 0)
=============================================================================
