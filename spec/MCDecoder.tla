----------------------------- MODULE MCDecoder -----------------------------
(***************************************************************************)
(* Model-checking root for the decoder (C03, and the decode half of C01,   *)
(* C02, C19).  The state is the decoder's whole state (buf, off, mode, and *)
(* the key DecodeTag read last, which Skip consults);                      *)
(* steps are those of the implementation-shaped model DecoderImpl.  Since  *)
(* Seek reaches every offset, the reachable states are all triples of the  *)
(* bounded domain, and the invariant Refines - evaluated in every state    *)
(* for every call - says that each step of the implementation model is     *)
(* explained by the requirement specification Decoder!ExplainsDecode:      *)
(* no panic outcome, cursor in bounds, success only with the reference     *)
(* item and its exact length, declared lengths beyond the input rejected.  *)
(***************************************************************************)
EXTENDS DecoderImpl, TLC

CONSTANTS Alphabet,     \* wire-significant byte values
          MaxLen,       \* all byte strings over Alphabet up to this length
          UseStructured \* add the structured family (huge declared lengths, 9/10/11-byte varints)

VARIABLES buf, off, mode, lt
vars == <<buf, off, mode, lt>>

Rep(x, n) == [i \in 1..n |-> x]

Structured ==
  LET lens == { NatWord(5), NatWord(127), NatWord(128), NatWord(2147483647),
                <<0, 0, 0, 0, 8, 0, 0, 0, 0, 0>>,                 \* 2^31
                <<0, 0, 0, 0, 16, 0, 0, 0, 0, 0>>,                \* 2^32
                <<0, 0, 0, 0, 0, 0, 0, 0, 0, 1>>,                 \* 2^63
                <<127, 127, 127, 127, 127, 127, 127, 127, 127, 1>> } \* 2^64 - 1
  IN { EncVarint(l) \o Rep(1, a) : l \in lens, a \in {0, 1, 4, 5, 9} }
     \cup { Rep(128, k) \o <<1>> : k \in {8, 9, 10} }
     \cup { Rep(255, 9) \o <<x>> : x \in {1, 2, 127} }
     \cup { <<9>> \o [i \in 1..n |-> i] : n \in 0..8 }

Bufs == UNION { [1..k -> Alphabet] : k \in 0..MaxLen } \cup (IF UseStructured THEN Structured ELSE {})

Arg(op, fn, wt, i1, i2) == [op |-> op, fn |-> fn, wt |-> wt, i1 |-> i1, i2 |-> i2]

\* the calls tried in every state (the conformance harness replays the same set)
Calls(b) ==
  { Arg(op, 0, 0, 0, 0) : op \in {"Tag", "Reset", "More", "Offset", "Bytes", "String"} \cup VarintOps \cup FixedOps \cup PackedOps }
  \cup { Arg("Nested", 0, 0, f, 0) : f \in {0, 1} }
  \cup { Arg("SetMode", 0, 0, m, 0) : m \in {0, 1} }
  \cup { Arg("Skip", 1, wt, 0, 0) : wt \in {0, 1, 2, 5, 3} }
  \cup { Arg("Skip", 16, 0, 0, 0), Arg("Skip", 2, 0, 0, 0), Arg("Skip", 0, 0, 0, 0) }
  \cup { Arg("Seek", 0, 0, o, 0) : o \in -1..(Len(b) + 1) }
  \cup { Arg("Seek", 0, 0, o, w) : o \in {-1, 0, 1}, w \in {1, 2, 3} }

\* the implementation model's outcome, in the shape ExplainsDecode judges
ImplNested(b, p, fail) ==
  LET r == ImplBytes(b, p) IN
  IF r.st = "err" THEN [st |-> "err", val |-> <<>>, vals |-> <<>>, off |-> p, cnt |-> 0, sb |-> <<>>, same |-> 0]
  ELSE IF fail = 1 THEN [st |-> "err", val |-> <<>>, vals |-> <<>>, off |-> p, cnt |-> 1, sb |-> r.val, same |-> 1]
  ELSE [st |-> "ok", val |-> <<>>, vals |-> <<>>, off |-> r.off, cnt |-> 1, sb |-> r.val, same |-> 0]

Outcome(b, p, m, c) ==
  IF c.op = "Nested" THEN ImplNested(b, p, c.i1) @@ [alloc |-> 0]
  ELSE ImplStep(b, p, m, c.op, c @@ [lt |-> lt]) @@ [alloc |-> 0, cnt |-> 0, sb |-> <<>>, same |-> 0]

Init == buf \in Bufs /\ off = 0 /\ mode = ModeSafe /\ lt = NoTag

Next == \E c \in Calls(buf) :
          LET o == Outcome(buf, off, mode, c) IN
          /\ off' = o.off
          /\ mode' = IF c.op = "SetMode" THEN c.i1 ELSE mode
          /\ lt' = NextTag(lt, off, c.op, o)
          /\ UNCHANGED buf

Spec == Init /\ [][Next]_vars

Refines  == \A c \in Calls(buf) : ExplainsDecode(buf, off, mode, c.op, c @@ [lt |-> lt], Outcome(buf, off, mode, c))
InBounds == off \in 0..Len(buf)

(***************************************************************************)
(* Spec-internal theorems on the same domain: what the reference parse     *)
(* calls a well-formed field is skipped exactly (SkipExact), so iterating  *)
(* DecodeTag; Skip over a well-formed buffer reproduces it.                *)
(***************************************************************************)
SkipExact ==
  LET f == FieldAt(buf, off) IN
  (f.ok /\ f.canon /\ f.fn >= 1) =>
     LET t == RefTag(buf, off) IN
     /\ t.class = "must" /\ t.val = <<f.fn, f.wt>>
     /\ LET s == RefSkip(buf, off + t.len, mode, f.fn, f.wt, NoTag) IN
        /\ s.class = "must"
        /\ s.val = Slice(buf, f.start, f.end)
        /\ off + t.len + s.len = f.end
=============================================================================
