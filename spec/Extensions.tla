----------------------------- MODULE Extensions -----------------------------
(***************************************************************************)
(* proto2 extension accessors of the runtime-agnostic API (C12) as a       *)
(* deterministic state machine: the abstract state of a message is         *)
(* ext : Slots -> Vals \cup {None}.  Operations Set(e, v), Clear(e),       *)
(* ClearAll change it; Has, Get, Range, ExtensionFieldNumber and the       *)
(* presence of the extension's field number in the marshaled bytes are     *)
(* observations that the trace specification compares with the state after *)
(* every step.  MCExtensions enumerates every operation script up to a     *)
(* bounded depth; the scripts are replayed on real messages of every       *)
(* flavour and slot mapping.                                               *)
(***************************************************************************)
EXTENDS Integers, Sequences, FiniteSets, TLC

CONSTANTS Slots, Vals, Depth
None == 0

VARIABLES ext, hist
vars == <<ext, hist>>

Init == ext = [s \in Slots |-> None] /\ hist = <<>>

Apply(x, op) == CASE op[1] = "set"      -> [x EXCEPT ![op[2]] = op[3]]
                  [] op[1] = "clear"    -> [x EXCEPT ![op[2]] = None]
                  [] op[1] = "clearall" -> [s \in Slots |-> None]
                  [] OTHER -> x

Ops == { <<"set", s, v>> : s \in Slots, v \in Vals } \cup { <<"clear", s, 0>> : s \in Slots } \cup { <<"clearall", 0, 0>> }

Next == /\ Len(hist) < Depth
        /\ \E op \in Ops : ext' = Apply(ext, op) /\ hist' = Append(hist, op)
Spec == Init /\ [][Next]_vars

\* the observations a message in abstract state x has to show
Has(x, s)   == x[s] # None
RangeOf(x)  == { s \in Slots : x[s] # None }

\* model-level sanity (what the trace specification relies on)
RECURSIVE Replay(_, _)
Replay(x, h) == IF h = <<>> THEN x ELSE Replay(Apply(x, Head(h)), Tail(h))
StateIsReplay   == ext = Replay([s \in Slots |-> None], hist)
ClearAllEmpties == (hist # <<>> /\ hist[Len(hist)][1] = "clearall") => RangeOf(ext) = {}
LastSetWins     == (hist # <<>> /\ hist[Len(hist)][1] = "set") => ext[hist[Len(hist)][2]] = hist[Len(hist)][3]

\* script emission (generator configuration only): every maximal history, once
EmitScripts == Len(hist) = Depth => PrintT(<<"SCRIPT", hist>>)
=============================================================================
