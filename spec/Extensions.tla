----------------------------- MODULE Extensions -----------------------------
(***************************************************************************)
(* proto2 extension accessors of the runtime-agnostic API (C12) as a       *)
(* deterministic state machine: the abstract state of a message is         *)
(* ext : Slots -> Vals \cup {None}.  Operations Set(e, v), Clear(e),       *)
(* ClearAll change it; Has, Get, Range, ExtensionFieldNumber and the       *)
(* presence of the extension's field number in the marshaled bytes are     *)
(* observations that the trace specification compares with the state after *)
(* every step.  MCExtensions enumerates every operation script up to a     *)
(* bounded depth; the scripts are replayed on real messages of every       *)
(* flavour and slot mapping.                                               *)
(*                                                                         *)
(* The LATE-BOUND slot (constant Late): with the v1-style APIs (gogo and   *)
(* legacy google-v1) a message may be decoded before the descriptor of one *)
(* of its extensions is known; the field is then held in encoded form and  *)
(* decoded by the first Get.  The representation (raw / decoded) is part   *)
(* of the state because the code paths differ (ClearAllExtensions has to   *)
(* remove a field that was never decoded), but no observation may depend   *)
(* on it: Has, the marshaled bytes and Range see the extension in both     *)
(* representations.  "arrive" is the message coming off the wire, so it    *)
(* can only be the first step of a script.                                 *)
(* LateDecodes = FALSE is the legacy google-v1 flavour as found: the       *)
(* runtime's late decoding goes through the message's generated Unmarshal  *)
(* method, which does not know the extension, so a Get that meets the      *)
(* encoded form reports "missing" and the field stays encoded.             *)
(***************************************************************************)
EXTENDS Integers, Sequences, FiniteSets, TLC

CONSTANTS Slots, Vals, Depth, Late, LateDecodes
None == 0

VARIABLES ext, lv, lraw, hist
vars == <<ext, lv, lraw, hist>>

Init == ext = [s \in Slots |-> None] /\ lv = None /\ lraw = FALSE /\ hist = <<>>

Apply(x, op) == CASE op[1] = "set"      -> [x EXCEPT ![op[2]] = op[3]]
                  [] op[1] = "clear"    -> [x EXCEPT ![op[2]] = None]
                  [] op[1] = "clearall" -> [s \in Slots |-> None]
                  [] OTHER -> x
\* the late-bound slot: <<value, raw>>
ApplyLate(l, op) == CASE op[1] = "arrive"    -> <<op[3], TRUE>>
                      [] op[1] = "getlate"   -> <<l[1], l[2] /\ ~LateDecodes>>   \* the first Get decodes (the value is unchanged) - unless
                                                                            \* the flavour cannot (LateDecodes = FALSE, see below)
                      [] op[1] = "setlate"   -> <<op[3], FALSE>>
                      [] op[1] = "clearlate" -> <<None, FALSE>>
                      [] op[1] = "clearall"  -> <<None, FALSE>>
                      [] OTHER -> l

Ops == { <<"set", s, v>> : s \in Slots, v \in Vals } \cup { <<"clear", s, 0>> : s \in Slots } \cup { <<"clearall", 0, 0>> }
LateOps == IF Late THEN { <<"getlate", 0, 0>>, <<"clearlate", 0, 0>>, <<"setlate", 0, 2>> } ELSE {}
FirstOps == IF Late THEN { <<"arrive", 0, 1>> } ELSE {}

Next == /\ Len(hist) < Depth
        /\ \E op \in Ops \cup LateOps \cup (IF hist = <<>> THEN FirstOps ELSE {}) :
              /\ ext' = Apply(ext, op)
              /\ LET l == ApplyLate(<<lv, lraw>>, op) IN lv' = l[1] /\ lraw' = l[2]
              /\ hist' = Append(hist, op)
Spec == Init /\ [][Next]_vars

\* the observations a message in abstract state x has to show
Has(x, s)   == x[s] # None
RangeOf(x)  == { s \in Slots : x[s] # None }
HasLate     == lv # None                       \* whatever the representation

\* model-level sanity (what the trace specification relies on)
RECURSIVE Replay(_, _)
Replay(x, h) == IF h = <<>> THEN x ELSE Replay(Apply(x, Head(h)), Tail(h))
RECURSIVE ReplayLate(_, _)
ReplayLate(l, h) == IF h = <<>> THEN l ELSE ReplayLate(ApplyLate(l, Head(h)), Tail(h))
StateIsReplay   == ext = Replay([s \in Slots |-> None], hist) /\ <<lv, lraw>> = ReplayLate(<<None, FALSE>>, hist)
ClearAllEmpties == (hist # <<>> /\ hist[Len(hist)][1] = "clearall") => (RangeOf(ext) = {} /\ ~HasLate)
LastSetWins     == (hist # <<>> /\ hist[Len(hist)][1] = "set") => ext[hist[Len(hist)][2]] = hist[Len(hist)][3]
\* raw only ever means "arrived and not yet read, set or cleared"; a raw slot always has a value
RawIsArrived    == lraw => (lv # None /\ hist # <<>> /\ hist[1][1] = "arrive"
                            /\ \A i \in 2..Len(hist) : hist[i][1] \notin ({"setlate", "clearlate", "clearall"} \cup IF LateDecodes THEN {"getlate"} ELSE {}))
\* the late slot and the declared slots do not interfere (only ClearAll touches both)
LateIndependent == \A i \in 1..Len(hist) : hist[i][1] \in {"arrive", "getlate", "setlate", "clearlate"} =>
                      Replay([s \in Slots |-> None], SubSeq(hist, 1, i)) = Replay([s \in Slots |-> None], SubSeq(hist, 1, i - 1))

\* script emission (generator configuration only): every maximal history, once
EmitScripts == Len(hist) = Depth => PrintT(<<"SCRIPT", hist>>)
=============================================================================
