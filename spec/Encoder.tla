------------------------------ MODULE Encoder ------------------------------
(***************************************************************************)
(* Requirement-level specification of csproto.Encoder and of the size      *)
(* helpers (C01, C02, C19).  An encode call appends exactly the canonical  *)
(* encoding of the field at the write cursor; the size helpers predict     *)
(* exactly the number of bytes written.                                    *)
(*                                                                         *)
(* An observed call is a record e with                                     *)
(*   k, i1 (1 = packed list), fn, a (scalar argument), as (list argument), *)
(*   p, off (write cursor before/after), cap (length of the buffer, which  *)
(*   the harness sized from the helpers alone; -1 = not sized exactly),    *)
(*   out (bytes found between p and off), st,                              *)
(*   h1 = SizeOfTagKey(fn), h2 = sum of SizeOfVarint(x), h3 = sum of       *)
(*   SizeOfZigZag(x) over the argument(s) x (varint kinds; else 0).        *)
(***************************************************************************)
EXTENDS Wire

RECURSIVE SumSeq(_)
SumSeq(s) == IF s = <<>> THEN 0 ELSE Head(s) + SumSeq(Tail(s))

ArgsOf(e) == IF e.i1 = 1 THEN e.as ELSE <<e.a>>

ArgsOK(e) == /\ e.k \in ScalarKinds
             /\ e.fn \in 1..MaxFieldNumber
             /\ e.i1 = 1 => e.k \notin LenKinds
             /\ \A i \in 1..Len(ArgsOf(e)) : ValueOK(e.k, ArgsOf(e)[i])

CanonOf(e) == IF e.i1 = 1 THEN CanonPacked(e.k, e.fn, e.as) ELSE CanonField(e.k, e.fn, e.a)

HelpersOK(e) ==
  /\ e.h1 = SigLen(KeyWord(e.fn, 0))
  /\ e.k \in VarintKinds =>
        /\ e.h2 = SumSeq([i \in 1..Len(ArgsOf(e)) |-> SigLen(ArgsOf(e)[i])])
        /\ e.h3 = SumSeq([i \in 1..Len(ArgsOf(e)) |-> SigLen(ZigZag(ArgsOf(e)[i]))])
  /\ e.k \in LenKinds => e.h2 = SigLen(NatWord(Len(e.a)))

ExplainsEncode(e) ==
  /\ e.st = "ok"
  /\ e.out = CanonOf(e)
  /\ e.off = e.p + Len(e.out)
  /\ e.cap # -1 => e.cap = e.p + Len(CanonOf(e))      \* predicted = written: no overrun, no slack
  /\ HelpersOK(e)

\* a bare helper call: k = "tagkey" | "varint" | "zigzag"; a = word argument (fn for tagkey); h1 = result
ExplainsSize(e) ==
  CASE e.k = "tagkey" -> e.fn \in 0..MaxFieldNumber /\ e.h1 = SigLen(KeyWord(e.fn, 0))
    [] e.k = "varint" -> e.h1 = SigLen(e.a)
    [] e.k = "zigzag" -> e.h1 = SigLen(ZigZag(e.a))
    [] OTHER -> FALSE

(***************************************************************************)
(* Nested-message bridging (C19).  mb = the bytes csproto.Marshal returns  *)
(* for the nested message (taken by the harness from a separate call and   *)
(* cross-checked against the owning runtime); i1 = 1: the nested message's *)
(* marshaler fails and `same` says the very same error came back.          *)
(***************************************************************************)
ExplainsEncNested(e) ==
  IF e.i1 = 1 THEN e.st = "err" /\ e.same = 1
  ELSE /\ e.st = "ok"
       /\ e.out = EncKey(e.fn, 2) \o EncVarint(NatWord(Len(e.a))) \o e.a
       /\ e.off = e.p + Len(e.out)

ExplainsEncRaw(e) == e.st = "ok" /\ e.out = e.a /\ e.off = e.p + Len(e.a)

\* EncodeMapEntryHeader(fn, size): i2 = size
ExplainsEncMapHeader(e) ==
  /\ e.st = "ok"
  /\ e.out = EncKey(e.fn, 2) \o EncVarint(NatWord(e.i2))
  /\ e.off = e.p + Len(e.out)
=============================================================================
