------------------------------- MODULE Tools -------------------------------
(***************************************************************************)
(* Diagnostic tooling (C20): prototest.ParseAnnotatedHex and cmd/protodump. *)
(*                                                                         *)
(* Annotated hex.  A text is a sequence of symbols:                        *)
(*   0..15  a hexadecimal digit with that value (either case)              *)
(*   16     white space other than a line break (space, tab, CR, NBSP ...) *)
(*   17     line feed                                                      *)
(*   18     ';'  (starts a comment that runs to the end of the line)       *)
(*   19     any other character                                            *)
(* HexRef gives what parsing has to return: the bytes denoted by the hex   *)
(* digits outside comments, or an error when anything else occurs outside  *)
(* a comment or the digits do not pair up.  The documented processing is   *)
(* per line, so a byte whose two digits are separated by a line break is   *)
(* class "may" (an error is allowed; a wrong result is not).               *)
(***************************************************************************)
EXTENDS Wire

HexWS == 16
HexLF == 17
HexSemi == 18
HexOther == 19

\* split a text into lines (without the line feeds)
RECURSIVE SplitLines(_)
SplitLines(t) ==
  IF \A i \in 1..Len(t) : t[i] # HexLF THEN <<t>>
  ELSE LET k == CHOOSE i \in 1..Len(t) : t[i] = HexLF /\ \A j \in 1..(i-1) : t[j] # HexLF
       IN <<SubSeq(t, 1, k - 1)>> \o SplitLines(SubSeq(t, k + 1, Len(t)))

\* the part of a line before its comment
Code(line) == IF \A i \in 1..Len(line) : line[i] # HexSemi THEN line
              ELSE SubSeq(line, 1, (CHOOSE i \in 1..Len(line) : line[i] = HexSemi /\ \A j \in 1..(i-1) : line[j] # HexSemi) - 1)
Digits(line) == SelectSeq(Code(line), LAMBDA s : s < 16)
HasOther(line) == \E c \in {Code(line)} : \E i \in 1..Len(c) : c[i] = HexOther

Pairs(ds) == [i \in 1..(Len(ds) \div 2) |-> 16 * ds[2 * i - 1] + ds[2 * i]]

\* (values bound by a quantifier are evaluated once; TLC re-evaluates LET definitions at every use, which is
\* quadratic on texts of tens of thousands of symbols)
HexRefOf(lines, all) ==
  IF \E i \in 1..Len(lines) : HasOther(lines[i]) THEN [class |-> "err", val |-> <<>>]
  ELSE IF Len(all) % 2 = 1 THEN [class |-> "err", val |-> <<>>]
  ELSE IF \A i \in 1..Len(lines) : Len(Digits(lines[i])) % 2 = 0 THEN [class |-> "val", val |-> Pairs(all)]
  ELSE [class |-> "may", val |-> Pairs(all)]
HexRef(t) ==
  CHOOSE r \in UNION {{HexRefOf(lines, all) : all \in {Concat([i \in 1..Len(lines) |-> Digits(lines[i])])}} : lines \in {SplitLines(t)}} : TRUE

ExplainsHex(e) ==
  \E r \in {HexRef(e.text)} :
  /\ e.st \in {"ok", "err"}
  /\ r.class = "val" => (e.st = "ok" /\ e.val = r.val)
  /\ r.class = "err" => e.st = "err"
  /\ r.class = "may" => (e.st = "err" \/ e.val = r.val)

(***************************************************************************)
(* A streaming formulation of the same language (one symbol at a time),    *)
(* used by MCTools to cross-check HexRef: state = [cm (in comment), hi     *)
(* (pending high nibble or -1), out, bad, odd (a line ended on a pending   *)
(* nibble)].                                                               *)
(***************************************************************************)
HexInit == [cm |-> FALSE, hi |-> -1, out |-> <<>>, bad |-> FALSE, odd |-> FALSE]
HexStep(s, c) ==
  IF c = HexLF THEN [s EXCEPT !.cm = FALSE, !.odd = s.odd \/ s.hi # -1]
  ELSE IF s.cm THEN s
  ELSE IF c = HexSemi THEN [s EXCEPT !.cm = TRUE]
  ELSE IF c = HexWS THEN s
  ELSE IF c = HexOther THEN [s EXCEPT !.bad = TRUE]
  ELSE IF s.hi = -1 THEN [s EXCEPT !.hi = c]
  ELSE [s EXCEPT !.hi = -1, !.out = Append(s.out, 16 * s.hi + c)]
HexFinal(s) == IF s.bad \/ s.hi # -1 THEN [class |-> "err", val |-> <<>>]
               ELSE IF s.odd THEN [class |-> "may", val |-> s.out]
               ELSE [class |-> "val", val |-> s.out]

(***************************************************************************)
(* protodump.  DumpRef(b, path, ind, expand, strings) = the entries the    *)
(* tool has to print for message bytes b found at tag path `path`:         *)
(* one entry per field in wire order [ind, fn, wt, kind, val]; val is the  *)
(* varint word (printed as a signed 64-bit number), the 4/8 fixed bytes    *)
(* (printed unsigned) or the payload bytes; a length-delimited field whose *)
(* path is in `strings` is printed as a string, otherwise as a byte list   *)
(* and - if its path is in `expand` - followed by the dump of its payload  *)
(* one level deeper.  class: "must" (well formed and canonical at every    *)
(* visited level), "rej" (malformed somewhere: the tool has to fail),      *)
(* "may" (non-canonical keys etc.).                                        *)
(***************************************************************************)
InPaths(p, paths) == p # <<>> /\ \E i \in 1..Len(paths) : paths[i] = p

Worse(a, b) == IF a = "rej" \/ b = "rej" THEN "rej" ELSE IF a = "may" \/ b = "may" THEN "may" ELSE "must"

RECURSIVE DumpRef(_, _, _, _, _), DumpFields(_, _, _, _, _, _, _)
DumpFields(b, fs, i, path, ind, ex, strs) ==
  IF i > Len(fs) THEN [class |-> "must", entries |-> <<>>]
  ELSE LET f == fs[i] IN
       IF ~f.ok THEN [class |-> "rej", entries |-> <<>>]
       ELSE LET p == Append(path, f.fn)
                own == IF f.wt = 0 THEN <<[ind |-> ind, fn |-> f.fn, wt |-> 0, kind |-> "varint", val |-> VarintAt(b, f.pay).w]>>
                       ELSE IF f.wt = 5 THEN <<[ind |-> ind, fn |-> f.fn, wt |-> 5, kind |-> "fixed32", val |-> Slice(b, f.pay, f.end)]>>
                       ELSE IF f.wt = 1 THEN <<[ind |-> ind, fn |-> f.fn, wt |-> 1, kind |-> "fixed64", val |-> Slice(b, f.pay, f.end)]>>
                       ELSE IF InPaths(p, strs) THEN <<[ind |-> ind, fn |-> f.fn, wt |-> 2, kind |-> "string", val |-> Slice(b, f.pay, f.end)]>>
                       ELSE <<[ind |-> ind, fn |-> f.fn, wt |-> 2, kind |-> "bytes", val |-> Slice(b, f.pay, f.end)]>>
                sub == IF f.wt = 2 /\ ~InPaths(p, strs) /\ InPaths(p, ex)
                       THEN DumpRef(Slice(b, f.pay, f.end), p, ind + 1, ex, strs)
                       ELSE [class |-> "must", entries |-> <<>>]
                rest == DumpFields(b, fs, i + 1, path, ind, ex, strs)
                here == IF f.canon /\ (f.wt # 0 \/ ~VarintAt(b, f.pay).big) THEN "must" ELSE "may"
            IN [class |-> Worse(here, Worse(sub.class, rest.class)), entries |-> own \o sub.entries \o rest.entries]

DumpRef(b, path, ind, ex, strs) == DumpFields(b, ParseAll(b), 1, path, ind, ex, strs)

ExplainsDump(e) ==
  LET r == DumpRef(e.buf, <<>>, 0, e.expand, e.strings) IN
  /\ e.crashed = 0
  /\ r.class = "must" => (e.exit = 0 /\ e.entries = r.entries)
  /\ r.class = "rej" => e.exit # 0

\* tag-path arguments: a comma separated list of dot separated integers; empty tokens are skipped
\* (the harness records the parsed result of tagPaths.Set through the tool's own observable behaviour only)
=============================================================================
