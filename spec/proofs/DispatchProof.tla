--------------------------- MODULE DispatchProof ---------------------------
(***************************************************************************)
(* TLAPS proof that the MsgType cache protocol of Dispatch.tla (the code   *)
(* as found: StoreFirst = FALSE) returns Class[t] to every caller and      *)
(* never publishes anything else - for ANY number of goroutines G and any  *)
(* set of types.  TLC checks the same invariants exhaustively for G = 3;   *)
(* this lifts the C11 clause "no matter how many goroutines trigger the    *)
(* first use concurrently" from 3 to all G.                                *)
(***************************************************************************)
EXTENDS Dispatch, TLAPS

ASSUME Assumptions == /\ G \in Nat /\ StoreFirst = FALSE
                      /\ Class \in [Types -> {"gogo", "googlev1", "google", "unknown"}]
                      /\ Types # {}

Values == {"gogo", "googlev1", "google", "unknown"}
TypeOK == /\ cache \in [Types -> Values \cup {NONE}]
          /\ pc \in [1..G -> {"idle", "load", "prestore", "deduce", "store"}]
          /\ cur \in [1..G -> Types]
          /\ ret \in [1..G -> Values \cup {NONE}]

Inv == /\ TypeOK
       /\ \A t \in Types : cache[t] # NONE => cache[t] = Class[t]
       /\ \A g \in 1..G : pc[g] = "store" => ret[g] = Class[cur[g]]
       /\ \A g \in 1..G : (pc[g] = "idle" /\ ret[g] # NONE) => ret[g] = Class[cur[g]]
       /\ \A g \in 1..G : pc[g] # "prestore"

LEMMA NoneNotValue == NONE \notin Values
  BY DEF NONE, Values

LEMMA InitInv == Init => Inv
  <1> SUFFICES ASSUME Init PROVE Inv OBVIOUS
  <1>1. (CHOOSE t \in Types : TRUE) \in Types BY Assumptions
  <1> QED BY <1>1, Assumptions DEF Init, Inv, TypeOK, NONE, Values

LEMMA NextInv == Inv /\ [Next]_vars => Inv'
  <1> SUFFICES ASSUME Inv, [Next]_vars PROVE Inv' OBVIOUS
  <1> USE Assumptions, NoneNotValue DEF Inv, TypeOK, Values, NONE
  <1>1. ASSUME NEW g \in 1..G, NEW t \in Types, Call(g, t) PROVE Inv'
    BY <1>1 DEF Call
  <1>2. ASSUME NEW g \in 1..G, Load(g) PROVE Inv'
    BY <1>2 DEF Load
  <1>3. ASSUME NEW g \in 1..G, PreStore(g) PROVE Inv'
    BY <1>3 DEF PreStore
  <1>4. ASSUME NEW g \in 1..G, Deduce(g) PROVE Inv'
    BY <1>4 DEF Deduce
  <1>5. ASSUME NEW g \in 1..G, Store(g) PROVE Inv'
    BY <1>5 DEF Store
  <1>6. CASE UNCHANGED vars
    BY <1>6 DEF vars
  <1> QED BY <1>1, <1>2, <1>3, <1>4, <1>5, <1>6 DEF Next

THEOREM Safety == Spec => [](ResultIsDeduce /\ \A t \in Types : cache[t] # NONE => cache[t] = Class[t])
  <1>1. Inv => (ResultIsDeduce /\ \A t \in Types : cache[t] # NONE => cache[t] = Class[t])
    BY DEF Inv, ResultIsDeduce
  <1> QED BY InitInv, NextInv, <1>1, PTL DEF Spec
=============================================================================
