--------------------------- MODULE GenCodecProof ---------------------------
(***************************************************************************)
(* TLAPS proofs about the size-cache protocol of GenCodec.tla (C09), for   *)
(* unbounded parameters (TLC checks the same invariants for 3 readers /    *)
(* histories of 5 operations):                                             *)
(*  ReadersSafe   - any number of goroutines calling Size/Marshal on a     *)
(*                  message nobody mutates each obtain the encoding of the *)
(*                  current contents, and the cache word only ever holds 0 *)
(*                  or that size (the templates as found, TrustCache).     *)
(*  RecomputeSafe - with a Size() that does not trust the cache, every     *)
(*                  Size/Marshal of every history of any length answers    *)
(*                  for the current contents (the repair of the open       *)
(*                  finding F-C09-stale-size-cache).                       *)
(***************************************************************************)
EXTENDS GenCodec, TLAPS

ASSUME Params == /\ Vals \subseteq Nat /\ Vals # {} /\ TrustCache \in BOOLEAN /\ Readers \in Nat /\ MaxOps \in Nat

RStates == {"idle", "compute", "store", "marshal"}
TypeOK == /\ val \in Vals /\ cache \in Nat
          /\ rpc \in [1..Readers -> RStates] /\ rsz \in [1..Readers -> Nat] /\ rout \in [1..Readers -> Nat \cup {-1}]

RInv == /\ TypeOK
        /\ CacheCoherent
        /\ \A r \in 1..Readers : rpc[r] \in {"store", "marshal"} => rsz[r] = SizeOf(val)
        /\ ReadersOK

LEMMA SizeNat == \A v \in Nat : SizeOf(v) \in Nat
  BY DEF SizeOf

THEOREM ReadersSafe == ASSUME Readers > 0 PROVE Spec => [](ReadersOK /\ CacheCoherent)
  <1>1. Init => RInv
    BY Params, SizeNat DEF Init, RInv, TypeOK, CacheCoherent, ReadersOK, RStates
  <1>2. RInv /\ [Next]_vars => RInv'
    <2> SUFFICES ASSUME RInv, [Next]_vars PROVE RInv' OBVIOUS
    <2> USE Params, SizeNat DEF RInv, TypeOK, CacheCoherent, ReadersOK, RStates
    <2> ~SeqMode BY DEF SeqMode
    <2>1. ASSUME NEW r \in 1..Readers, RLoad(r) PROVE RInv'
      BY <2>1 DEF RLoad
    <2>2. ASSUME NEW r \in 1..Readers, RCompute(r) PROVE RInv'
      BY <2>2 DEF RCompute
    <2>3. ASSUME NEW r \in 1..Readers, RStore(r) PROVE RInv'
      BY <2>3 DEF RStore
    <2>4. ASSUME NEW r \in 1..Readers, RMarshal(r) PROVE RInv'
      BY <2>4 DEF RMarshal
    <2>5. CASE UNCHANGED vars
      BY <2>5 DEF vars
    <2>6. ASSUME NEW v \in Vals, Set(v) \/ Unmarshal(v) PROVE FALSE
      BY <2>6 DEF Set, Unmarshal
    <2>7. ASSUME Size \/ Marshal \/ RtSize \/ Reset PROVE FALSE
      BY <2>7 DEF Size, Marshal, RtSize, Reset
    <2> QED BY <2>1, <2>2, <2>3, <2>4, <2>5, <2>6, <2>7 DEF Next
  <1>3. RInv => (ReadersOK /\ CacheCoherent)
    BY DEF RInv
  <1> QED BY <1>1, <1>2, <1>3, PTL DEF Spec

THEOREM RecomputeSafe == ASSUME TrustCache = FALSE PROVE Spec => []MarshalOK
  <1>1. Init => MarshalOK
    BY DEF Init, MarshalOK
  <1>2. MarshalOK /\ [Next]_vars => MarshalOK'
    <2> SUFFICES ASSUME MarshalOK, [Next]_vars PROVE MarshalOK' OBVIOUS
    <2> USE DEF MarshalOK, GenSize
    <2>1. ASSUME NEW v \in Vals, Set(v) \/ Unmarshal(v) PROVE MarshalOK'
      BY <2>1 DEF Set, Unmarshal
    <2>2. ASSUME Size \/ Marshal \/ RtSize \/ Reset PROVE MarshalOK'
      BY <2>2 DEF Size, Marshal, RtSize, Reset
    <2>3. ASSUME NEW r \in 1..Readers, RLoad(r) \/ RCompute(r) \/ RStore(r) \/ RMarshal(r) PROVE MarshalOK'
      BY <2>3 DEF RLoad, RCompute, RStore, RMarshal
    <2>4. CASE UNCHANGED vars
      BY <2>4 DEF vars
    <2> QED BY <2>1, <2>2, <2>3, <2>4 DEF Next
  <1> QED BY <1>1, <1>2, PTL DEF Spec
=============================================================================
