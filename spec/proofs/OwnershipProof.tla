--------------------------- MODULE OwnershipProof ---------------------------
(***************************************************************************)
(* TLAPS proof that the ownership protocol of Ownership.tla keeps the sets *)
(* of objects owned by different goroutines disjoint, never owns a pooled  *)
(* object and never loses one - for ANY number of goroutines G and any set *)
(* of objects.  TLC checks that the implementation-shaped LazyPool refines *)
(* the protocol for G = 2 (MCLazyPool_refine.cfg); together: the C15       *)
(* clause "many goroutines ... every goroutine observes exactly the values *)
(* of its own input" does not depend on the bound TLC explored.            *)
(***************************************************************************)
EXTENDS Ownership, TLAPS

ASSUME GNat == G \in Nat

Inv == TypeOK /\ Disjoint /\ NotPooled /\ Conserved

LEMMA InitInv == Init => Inv
  BY GNat DEF Init, Inv, TypeOK, Disjoint, NotPooled, Conserved

LEMMA NextInv == Inv /\ [Next]_ovars => Inv'
  <1> SUFFICES ASSUME Inv, [Next]_ovars PROVE Inv' OBVIOUS
  <1> USE GNat DEF Inv, TypeOK, Disjoint, NotPooled, Conserved
  <1>1. ASSUME NEW g \in 1..G, NEW S \in SUBSET pooled, Take(g, S) PROVE Inv'
    BY <1>1 DEF Take
  <1>2. ASSUME NEW g \in 1..G, Release(g) PROVE Inv'
    BY <1>2 DEF Release
  <1>3. CASE UNCHANGED ovars
    BY <1>3 DEF ovars
  <1> QED BY <1>1, <1>2, <1>3 DEF Next

THEOREM Safety == Spec => [](Disjoint /\ NotPooled /\ Conserved)
  <1>1. Inv => (Disjoint /\ NotPooled /\ Conserved) BY DEF Inv
  <1> QED BY InitInv, NextInv, <1>1, PTL DEF Spec
=============================================================================
