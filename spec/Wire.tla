------------------------------- MODULE Wire -------------------------------
(***************************************************************************)
(* The protobuf wire format as pure operators.                             *)
(*                                                                         *)
(* TLC integers are 32 bit, so a 64-bit quantity is never a TLA+ integer:  *)
(* a 64-bit WORD is a tuple of ten base-128 digits, little endian, the     *)
(* tenth digit in {0,1}.  That is exactly the mathematical content of a    *)
(* varint: the index of the highest non-zero digit is the varint length.   *)
(* Bytes are integers 0..255, buffers are tuples of bytes.  Offsets used   *)
(* by the operators below are 0-based "cursor" positions (the byte at      *)
(* cursor p is b[p+1]), to match the implementation's notion of offset.    *)
(***************************************************************************)
EXTENDS Integers, Sequences, FiniteSets

W0 == <<0, 0, 0, 0, 0, 0, 0, 0, 0, 0>>

IsWord(d) == /\ Len(d) = 10
             /\ \A i \in 1..9 : d[i] \in 0..127
             /\ d[10] \in 0..1

\* index of the highest non-zero digit (1 for the zero word) = length of the minimal varint
SigLen(d) == IF \E i \in 1..10 : d[i] # 0
             THEN CHOOSE k \in 1..10 : d[k] # 0 /\ \A j \in (k+1)..10 : d[j] = 0
             ELSE 1

\* the minimal varint encoding of word d
EncVarint(d) == LET n == SigLen(d) IN [i \in 1..n |-> IF i < n THEN d[i] + 128 ELSE d[i]]

\* a non-negative TLA+ integer (< 2^31) as a word
NatWord(n) == [i \in 1..10 |->
                 IF i = 1 THEN n % 128
                 ELSE IF i = 2 THEN (n \div 128) % 128
                 ELSE IF i = 3 THEN (n \div 16384) % 128
                 ELSE IF i = 4 THEN (n \div 2097152) % 128
                 ELSE IF i = 5 THEN (n \div 268435456) % 128
                 ELSE 0]

FitsNat(d) == d[5] < 8 /\ \A i \in 6..10 : d[i] = 0          \* value < 2^31
WordNat(d) == d[1] + 128 * d[2] + 16384 * d[3] + 2097152 * d[4] + 268435456 * d[5]   \* only if FitsNat(d)

(***************************************************************************)
(* Bit-level operations on words, by digit arithmetic.                     *)
(***************************************************************************)
\* v << 1 (mod 2^64): the carry into digit i is the top bit of digit i-1
Dbl(d) == [i \in 1..10 |->
             IF i = 10 THEN d[9] \div 64
             ELSE ((2 * d[i]) % 128) + (IF i > 1 THEN d[i-1] \div 64 ELSE 0)]
\* v >> 1 (logical)
Halve(d) == [i \in 1..10 |->
               IF i = 10 THEN 0
               ELSE d[i] \div 2 + (d[i+1] % 2) * 64]
\* bitwise complement
Not(d) == [i \in 1..10 |-> IF i = 10 THEN 1 - d[i] ELSE 127 - d[i]]
IsNeg(d) == d[10] = 1                                         \* bit 63

\* zig-zag of the 64-bit two's complement value d:  (v << 1) ^ (v >> 63)
ZigZag(d) == IF IsNeg(d) THEN Not(Dbl(d)) ELSE Dbl(d)
\* inverse:  (u >> 1) ^ -(u & 1)
UnZigZag(u) == IF u[1] % 2 = 1 THEN Not(Halve(u)) ELSE Halve(u)

\* 32-bit views of a word
FitsU32(d) == d[5] < 16 /\ \A i \in 6..10 : d[i] = 0
Low32(d) == [i \in 1..10 |-> IF i <= 4 THEN d[i] ELSE IF i = 5 THEN d[5] % 16 ELSE 0]
\* sign-extend bit 31 of a word that fits 32 bits to 64 bits
SExt32(d) == IF d[5] \div 8 = 1
             THEN [i \in 1..10 |-> IF i <= 4 THEN d[i]
                                   ELSE IF i = 5 THEN d[5] + 112
                                   ELSE IF i = 10 THEN 1 ELSE 127]
             ELSE d
\* d is the 64-bit sign extension of some int32
IsS32(d) == SExt32(Low32(d)) = d

(***************************************************************************)
(* Keys.  Field numbers (< 2^29) are TLA+ integers; keys are words.        *)
(***************************************************************************)
MaxFieldNumber == 536870911
WireTypes == {0, 1, 2, 5}
KeyWord(fn, wt) == [i \in 1..10 |->
                      IF i = 1 THEN (fn % 16) * 8 + wt
                      ELSE IF i = 2 THEN (fn \div 16) % 128
                      ELSE IF i = 3 THEN (fn \div 2048) % 128
                      ELSE IF i = 4 THEN (fn \div 262144) % 128
                      ELSE IF i = 5 THEN (fn \div 33554432) % 128
                      ELSE 0]
EncKey(fn, wt) == EncVarint(KeyWord(fn, wt))
KeyWt(d) == d[1] % 8
KeyFn(d) == d[1] \div 8 + 16 * d[2] + 2048 * d[3] + 262144 * d[4] + 33554432 * d[5]   \* only if FitsU32(d)

(***************************************************************************)
(* Reading a varint at cursor p of buffer b.                               *)
(*   n   : number of bytes of the varint, 0 if it is unterminated within   *)
(*         the buffer or has more than ten bytes                           *)
(*   w   : the low 64 bits of the value                                    *)
(*   min : the encoding is the minimal one                                 *)
(*   big : a tenth byte carries bits beyond bit 63                         *)
(***************************************************************************)
VarintAt(b, p) ==
  LET avail == Len(b) - p
      lim   == IF avail < 10 THEN avail ELSE 10
      ends  == {k \in 1..lim : b[p + k] < 128 /\ \A j \in 1..(k-1) : b[p + j] >= 128}
  IN IF ends = {} THEN [n |-> 0, w |-> W0, min |-> FALSE, big |-> FALSE]
     ELSE LET k == CHOOSE x \in ends : TRUE
              w == [i \in 1..10 |-> IF i > k THEN 0
                                    ELSE IF i = 10 THEN (b[p + i] % 128) % 2
                                    ELSE b[p + i] % 128]
          IN [n |-> k, w |-> w,
              min |-> (k = 1 \/ b[p + k] # 0),
              big |-> (k = 10 /\ b[p + 10] > 1)]

Slice(b, from, to) == SubSeq(b, from + 1, to)    \* bytes at cursors from .. to-1

(***************************************************************************)
(* The canonical encoding of one field (what a conforming writer emits).   *)
(* kinds: the protobuf scalar kinds.  Values arrive as:                    *)
(*   varint kinds (bool,int32,int64,uint32,uint64,enum,sint32,sint64):     *)
(*       the word of the 64-bit two's complement VALUE (sign-extended)     *)
(*   fixed32,sfixed32,float : 4 little-endian bytes;                        *)
(*   fixed64,sfixed64,double: 8 little-endian bytes;  string,bytes: bytes  *)
(***************************************************************************)
VarintKinds == {"bool", "int32", "int64", "uint32", "uint64", "enum", "sint32", "sint64"}
Fixed32Kinds == {"fixed32", "sfixed32", "float"}
Fixed64Kinds == {"fixed64", "sfixed64", "double"}
LenKinds == {"string", "bytes"}
ScalarKinds == VarintKinds \cup Fixed32Kinds \cup Fixed64Kinds \cup LenKinds

KindWt(k) == IF k \in VarintKinds THEN 0
             ELSE IF k \in Fixed64Kinds THEN 1
             ELSE IF k \in Fixed32Kinds THEN 5 ELSE 2

\* payload of a single element of kind k (no key)
EncElem(k, v) == IF k \in {"sint32", "sint64"} THEN EncVarint(ZigZag(v))
                 ELSE IF k \in VarintKinds THEN EncVarint(v)
                 ELSE IF k \in LenKinds THEN EncVarint(NatWord(Len(v))) \o v
                 ELSE v

CanonField(k, fn, v) == EncKey(fn, KindWt(k)) \o EncElem(k, v)

RECURSIVE Concat(_)
Concat(ss) == IF ss = <<>> THEN <<>> ELSE Head(ss) \o Concat(Tail(ss))

\* a packed field: nothing for the empty list
CanonPacked(k, fn, vs) ==
  IF vs = <<>> THEN <<>>
  ELSE LET body == Concat([i \in 1..Len(vs) |-> EncElem(k, vs[i])])
       IN EncKey(fn, 2) \o EncVarint(NatWord(Len(body))) \o body

\* the domain of values of a kind, as a predicate on what EncElem accepts
ValueOK(k, v) ==
  CASE k = "bool" -> v \in {W0, NatWord(1)}
    [] k \in {"int32", "enum", "sint32"} -> IsWord(v) /\ IsS32(v)
    [] k = "uint32" -> IsWord(v) /\ FitsU32(v)
    [] k \in {"int64", "uint64", "sint64"} -> IsWord(v)
    [] k \in Fixed32Kinds -> Len(v) = 4 /\ \A i \in 1..4 : v[i] \in 0..255
    [] k \in Fixed64Kinds -> Len(v) = 8 /\ \A i \in 1..8 : v[i] \in 0..255
    [] OTHER -> \A i \in 1..Len(v) : v[i] \in 0..255

(***************************************************************************)
(* Reference parse of one field at cursor p: key, payload extent.          *)
(* ok = FALSE when the bytes at p are not a complete field of a supported  *)
(* wire type.  canon = the key is minimal, the field number is valid and,  *)
(* for LEN, the length prefix is minimal.                                  *)
(***************************************************************************)
NoField == [ok |-> FALSE, canon |-> FALSE, fn |-> 0, wt |-> 0, start |-> 0, pay |-> 0, end |-> 0, keyw |-> W0]

FieldAt(b, p) ==
  LET kv == VarintAt(b, p) IN
  IF kv.n = 0 \/ kv.big \/ ~FitsU32(kv.w) THEN NoField
  ELSE LET wt == KeyWt(kv.w)
           fn == KeyFn(kv.w)
           q  == p + kv.n
           keyok == kv.min /\ fn >= 1
       IN CASE wt = 0 -> LET v == VarintAt(b, q) IN
                          IF v.n = 0 THEN NoField
                          ELSE [ok |-> TRUE, canon |-> keyok, fn |-> fn, wt |-> 0, start |-> p,
                                pay |-> q, end |-> q + v.n, keyw |-> kv.w]
            [] wt = 1 -> IF q + 8 > Len(b) THEN NoField
                         ELSE [ok |-> TRUE, canon |-> keyok, fn |-> fn, wt |-> 1, start |-> p,
                               pay |-> q, end |-> q + 8, keyw |-> kv.w]
            [] wt = 5 -> IF q + 4 > Len(b) THEN NoField
                         ELSE [ok |-> TRUE, canon |-> keyok, fn |-> fn, wt |-> 5, start |-> p,
                               pay |-> q, end |-> q + 4, keyw |-> kv.w]
            [] wt = 2 -> LET l == VarintAt(b, q) IN
                         IF l.n = 0 \/ l.big \/ ~FitsNat(l.w) THEN NoField
                         ELSE IF WordNat(l.w) > Len(b) - q - l.n THEN NoField   \* (no addition: TLC integers overflow)
                         ELSE [ok |-> TRUE, canon |-> keyok /\ l.min, fn |-> fn, wt |-> 2, start |-> p,
                               pay |-> q + l.n, end |-> q + l.n + WordNat(l.w), keyw |-> kv.w]
            [] OTHER -> NoField

\* all fields of buffer b from cursor p on; the last element has ok = FALSE if b is malformed
RECURSIVE FieldsFrom(_, _)
FieldsFrom(b, p) == IF p >= Len(b) THEN <<>>
                    ELSE LET f == FieldAt(b, p) IN
                         IF ~f.ok THEN <<f>> ELSE <<f>> \o FieldsFrom(b, f.end)
ParseAll(b) == FieldsFrom(b, 0)
WellFormed(b) == \A i \in 1..Len(ParseAll(b)) : ParseAll(b)[i].ok
=============================================================================
