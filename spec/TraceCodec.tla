----------------------------- MODULE TraceCodec -----------------------------
(***************************************************************************)
(* Trace validation for the hand-written codec (C01, C02, C03, C19).       *)
(* Total and resynchronising: every recorded event is consumed; event l is *)
(* judged by the requirement-level Explains* operators in the pre-state    *)
(* the model holds; the model state is then re-bound from the logged       *)
(* post-state.  Verdicts:                                                  *)
(*   bad    : events the requirement specification does not explain        *)
(*   drift  : events that differ from the implementation-shaped model      *)
(*            DecoderImpl (diagnostic only)                                *)
(*   desync : events whose logged pre-state is not the model's post-state  *)
(*            of the previous event, or that are malformed (harness bug;   *)
(*            the run is inconclusive)                                     *)
(***************************************************************************)
EXTENDS DecoderImpl, Encoder, Json, TLC

Trace == ndJsonDeserialize("trace.ndjson")

VARIABLES l, buf, off, mode, lt, bad, drift, desync
vars == <<l, buf, off, mode, lt, bad, drift, desync>>

Init == /\ l = 1 /\ buf = <<>> /\ off = 0 /\ mode = 0 /\ lt = NoTag
        /\ bad = <<>> /\ drift = <<>> /\ desync = <<>>

\* hx = 1: the harness knows what the call has to return (the value it encoded before)
HxOK(e)    == e.hx = 1 => (e.st = "ok" /\ e.val = e.x /\ e.vals = e.xs)
DecOK(e)   == ExplainsDecode(buf, e.p, e.mode, e.op, e @@ [lt |-> lt], e) /\ (e.op \notin {"NestedMsg", "NestedBad"} => HxOK(e))
DecSame(e) == IF e.op \in {"Nested", "NestedMsg", "NestedBad"} THEN TRUE
              ELSE LET m == ImplStep(buf, e.p, e.mode, e.op, e @@ [lt |-> lt]) IN
                   /\ m.st = e.st /\ m.off = e.off
                   /\ m.st = "ok" => (m.val = e.val /\ m.vals = e.vals)

\* package-level primitives called directly (family "prim"): encoders fill exactly the predicted bytes of a poisoned
\* destination and nothing beyond; decoders are judged like the Decoder method of the same kind on a fresh buffer at offset 0
PrimEncFns == {"EncodeVarint", "EncodeZigZag32", "EncodeZigZag64", "EncodeFixed32", "EncodeFixed64", "EncodeTag"}
PrimWant(e) == CASE e.op = "EncodeVarint" -> EncVarint(e.a)
                 [] e.op \in {"EncodeZigZag32", "EncodeZigZag64"} -> EncVarint(ZigZag(e.a))
                 [] e.op \in {"EncodeFixed32", "EncodeFixed64"} -> e.a
                 [] OTHER -> EncKey(e.fn, e.wt)
PrimOK(e) == IF e.op \in PrimEncFns
             THEN e.st = "ok" /\ e.out = PrimWant(e) /\ e.i1 = Len(PrimWant(e)) /\ e.same = 1
             ELSE ExplainsDecode(e.buf, 0, 0, e.op, e, e)

Step ==
  /\ l <= Len(Trace)
  /\ LET e == Trace[l] IN
     /\ l' = l + 1
     /\ CASE e.c = "new" ->
               /\ buf' = e.buf /\ off' = 0 /\ mode' = 0 /\ lt' = NoTag
               /\ UNCHANGED <<bad, drift, desync>>
          [] e.c = "dec" ->
               /\ desync' = IF e.p = off /\ e.mode = mode THEN desync ELSE Append(desync, l)
               /\ bad'    = IF DecOK(e) THEN bad ELSE Append(bad, l)
               /\ drift'  = IF DecSame(e) THEN drift ELSE Append(drift, l)
               /\ off'    = e.off
               /\ mode'   = IF e.op = "SetMode" THEN e.i1 ELSE e.mode
               /\ lt'     = NextTag(lt, e.p, e.op, e)
               /\ UNCHANGED buf
          [] e.c = "cat" ->     \* concatenation of the raw fields returned by a DecodeTag/Skip walk
               /\ bad' = IF e.st = "ok" /\ e.a = buf /\ e.off = Len(buf) THEN bad ELSE Append(bad, l)
               /\ UNCHANGED <<buf, off, mode, lt, drift, desync>>
          [] e.c = "enc" ->
               \* hx = 1: ref is the encoding produced by the reference implementation (protowire);
               \* specification and reference disagreeing is a defect of the machinery, not of csproto
               /\ desync' = IF ArgsOK(e) /\ (e.hx = 1 => e.ref = CanonOf(e)) THEN desync ELSE Append(desync, l)
               /\ bad'    = IF ArgsOK(e) /\ ~ExplainsEncode(e) THEN Append(bad, l) ELSE bad
               /\ UNCHANGED <<buf, off, mode, lt, drift>>
          [] e.c = "size" ->
               /\ bad' = IF ExplainsSize(e) THEN bad ELSE Append(bad, l)
               /\ UNCHANGED <<buf, off, mode, lt, drift, desync>>
          [] e.c = "encn" ->
               \* hx = 1: csproto.Marshal(m) (= a) against the owning runtime's bytes (= ref)
               /\ bad' = IF (IF e.hx = 1 THEN e.a = e.ref ELSE ExplainsEncNested(e)) THEN bad ELSE Append(bad, l)
               /\ UNCHANGED <<buf, off, mode, lt, drift, desync>>
          [] e.c = "encraw" ->
               /\ bad' = IF ExplainsEncRaw(e) THEN bad ELSE Append(bad, l)
               /\ UNCHANGED <<buf, off, mode, lt, drift, desync>>
          [] e.c = "encmh" ->
               /\ bad' = IF ExplainsEncMapHeader(e) THEN bad ELSE Append(bad, l)
               /\ UNCHANGED <<buf, off, mode, lt, drift, desync>>
          [] e.c = "prim" ->
               /\ bad' = IF PrimOK(e) THEN bad ELSE Append(bad, l)
               /\ UNCHANGED <<buf, off, mode, lt, drift, desync>>
          [] OTHER ->
               /\ desync' = Append(desync, l)
               /\ UNCHANGED <<buf, off, mode, lt, bad, drift>>

Spec == Init /\ [][Step]_vars

\* written when the whole trace has been consumed
Report == l = Len(Trace) + 1 =>
            JsonSerialize("result.json", [n |-> Len(Trace), bad |-> bad, drift |-> drift, desync |-> desync])
=============================================================================
