------------------------------- MODULE MCLazy -------------------------------
(***************************************************************************)
(* Model-checking root for Lazy (C13): over every message built from up to *)
(* MaxFields fields of a small field alphabet and a family of definitions, *)
(* TLC checks that the accessor semantics are coherent with each other and *)
(* with the reference parse: a single-value accessor returns the last      *)
(* element of the corresponding slice accessor, slice accessors return one *)
(* element per occurrence for unpacked data, absent/undeclared tags map to *)
(* their error classes, and Range reports presence exactly.                *)
(***************************************************************************)
EXTENDS Lazy, TLC

CONSTANTS MaxFields

\* field alphabet: (bytes) - tags 1,2,3; varint, fixed32, LEN (string / packed / nested), fixed64
Fields == { <<8, 1>>, <<8, 172, 2>>, <<8, 255, 255, 255, 255, 15>>, <<8, 255, 255, 255, 255, 255, 255, 255, 255, 255, 1>>,
            <<10, 0>>, <<10, 1, 65>>, <<10, 2, 1, 2>>, <<10, 3, 8, 1, 8>>,
            <<21, 1, 0, 0, 0>>, <<17, 1, 2, 3, 4, 5, 6, 7, 8>>,
            <<16, 5>>, <<18, 2, 8, 1>>, <<26, 4, 10, 2, 8, 7>> }

Defs == { [tags |-> <<1>>, nested |-> <<>>],
          [tags |-> <<1, 2>>, nested |-> <<[tag |-> 1, def |-> [tags |-> <<1>>, nested |-> <<>>]]>>],
          [tags |-> <<2, 3>>, nested |-> <<[tag |-> 3, def |-> [tags |-> <<1>>, nested |-> <<[tag |-> 1, def |-> [tags |-> <<1>>, nested |-> <<>>]]>>]]>>],
          [tags |-> <<1, 2, 3, 4>>, nested |-> <<>>] }

VARIABLES msg, def, n
vars == <<msg, def, n>>

Init == msg = <<>> /\ def \in Defs /\ n = 0
Next == /\ n < MaxFields
        /\ \E f \in Fields : msg' = msg \o f
        /\ n' = n + 1 /\ UNCHANGED def
Spec == Init /\ [][Next]_vars

Tags == {1, 2, 3, 4, 5}
OK == msg # <<>> /\ DecodeClass(msg, def) = "must"

LastOfSlice ==
  OK => \A t \in Tags : \A a \in ScalarAccs :
          LET s == AccRef(msg, def, a, t)
              sl == AccRef(msg, def, CHOOSE x \in SliceAccs : Base(x) = a, t) IN
          (s.class = "val" /\ sl.class = "val" /\ sl.vals # <<>>) => s.val = sl.vals[Len(sl.vals)]

ErrorClasses ==
  OK => \A t \in Tags : \A a \in ScalarAccs \cup SliceAccs :
          LET x == AccRef(msg, def, a, t) IN
          /\ ~Declared(def, t) => x.class = "notdefined"
          /\ (Declared(def, t) /\ Occs(msg, t) = <<>>) => x.class = "notfound"
          /\ (Declared(def, t) /\ Occs(msg, t) # <<>>) => x.class \notin {"notdefined", "notfound"}
          /\ AccRef(msg, def, a, -t) = x                         \* negative tags address the same field

OnePerOccurrence ==
  OK => \A t \in Tags :
          LET occ == Occs(msg, t) IN
          (Declared(def, t) /\ occ # <<>> /\ occ[1].wt = 2) =>
             /\ AccRef(msg, def, "BytesS", t).vals = [i \in 1..Len(occ) |-> occ[i].pay]
             /\ AccRef(msg, def, "Strings", t).vals = [i \in 1..Len(occ) |-> occ[i].pay]
             /\ AccRef(msg, def, "Bytes", t).val = occ[Len(occ)].pay

RangeExact ==
  OK => \A p \in RangeRef(msg, def) : (p[2] = 1) <=> (Occs(msg, p[1]) # <<>>)

NestedCoherent ==
  OK => \A t \in Tags :
          LET one == NestedRef(msg, def, t, FALSE)
              all == NestedRef(msg, def, t, TRUE) IN
          (one.class = "val" /\ all.class = "val") => one.bufs[1] = all.bufs[Len(all.bufs)]
=============================================================================
