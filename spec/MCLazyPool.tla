----------------------------- MODULE MCLazyPool -----------------------------
(* Model-checking root for LazyPool: concrete input shapes (tag absent / once / three times;   *)
(* 0, 2, 3 nested messages - more and fewer than the buffer limits explored).                 *)
EXTENDS LazyPool
NTopDef    == (1 :> 0) @@ (2 :> 1) @@ (3 :> 3)
NNestedDef == (1 :> 0) @@ (2 :> 2) @@ (3 :> 3)
NoLimit    == -1      \* (a configuration file cannot hold a negative literal)

\* refinement: LazyPool implements the ownership protocol of Ownership.tla (whose safety for any number of goroutines is proved with TLAPS)
Abs == INSTANCE Ownership WITH Obj <- Objs,
         own <- [g \in 1..G |-> {o \in Objs : obj[o].st = "held" /\ obj[o].holder = g}],
         pooled <- {o \in Objs : obj[o].st # "held"}
AbsSpec == Abs!Spec
=============================================================================
