------------------------------- MODULE GenLoop -------------------------------
(***************************************************************************)
(* The plug-in process handling one CodeGeneratorRequest that names        *)
(* several files to generate (run.go / render.go), as a state machine:     *)
(* for each file in request order, build the per-file helper closures      *)
(* (codeGenFunctions: allMessages, getExtensions, getImportPrefix, ... all *)
(* closed over THAT file), load the embedded templates bound to those      *)
(* helpers, render the file's outputs.  C16 requires the plug-in to be a   *)
(* per-file function (Generator!Compositional): what is emitted for a file *)
(* is rendered with that file's helpers, whatever was generated before it  *)
(* in the same process.                                                    *)
(*                                                                         *)
(* CacheTemplates = FALSE is render.go as found (parse and bind on every   *)
(* call).  CacheTemplates = TRUE is the tempting optimisation "the         *)
(* embedded templates never change, parse them once": the helpers bound at *)
(* the first call are then used for every later file - an expected         *)
(* violation (GenLoop_cacheonce.cfg).                                      *)
(***************************************************************************)
EXTENDS Integers, Sequences, FiniteSets

CONSTANTS Files, MaxLen, CacheTemplates
None == "none"

VARIABLES todo, pc, cur, helpers, tmpl, out
vars == <<todo, pc, cur, helpers, tmpl, out>>

\* every request: a non-empty sequence of distinct files
Requests == UNION { { s \in [1..n -> Files] : \A i, j \in 1..n : i # j => s[i] # s[j] } : n \in 1..MaxLen }

Init == /\ todo \in Requests
        /\ pc = "next" /\ cur = None /\ helpers = None /\ tmpl = None /\ out = <<>>

NextFile == /\ pc = "next" /\ todo # <<>>
            /\ cur' = Head(todo) /\ todo' = Tail(todo)
            /\ pc' = "funcs" /\ UNCHANGED <<helpers, tmpl, out>>
\* codeGenFunctions(protoFile, ...): closures over the current file
BuildHelpers == /\ pc = "funcs"
                /\ helpers' = cur
                /\ pc' = "load" /\ UNCHANGED <<todo, cur, tmpl, out>>
\* loadTemplateFromEmbedded(funcs): the template set is bound to the helpers it is parsed with
LoadTemplate == /\ pc = "load"
                /\ tmpl' = IF CacheTemplates /\ tmpl # None THEN tmpl ELSE helpers
                /\ pc' = "render" /\ UNCHANGED <<todo, cur, helpers, out>>
\* the content template runs with the helpers the template set was bound to
Render == /\ pc = "render"
          /\ out' = Append(out, [file |-> cur, renderedWith |-> tmpl])
          /\ pc' = "next" /\ UNCHANGED <<todo, cur, helpers, tmpl>>
Next == NextFile \/ BuildHelpers \/ LoadTemplate \/ Render
Spec == Init /\ [][Next]_vars

\* the process terminates: every requested file is eventually rendered (weak fairness of the loop; GenLoop_live.cfg)
FairSpec == Spec /\ WF_vars(Next)
Terminates == <>(pc = "next" /\ todo = <<>>)
AllRendered == \A f \in Files : (\E i \in 1..Len(todo) : todo[i] = f) ~> (\E i \in 1..Len(out) : out[i].file = f)

TypeOK == pc \in {"next", "funcs", "load", "render"} /\ cur \in Files \cup {None}
\* the requirement: every output is rendered with its own file's helpers
PerFile == \A i \in 1..Len(out) : out[i].renderedWith = out[i].file
\* ... and each requested file is emitted exactly once, in order, when the process is done
Done == (pc = "next" /\ todo = <<>>) => \A i, j \in 1..Len(out) : i # j => out[i].file # out[j].file
=============================================================================
