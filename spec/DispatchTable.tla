---------------------------- MODULE DispatchTable ----------------------------
EXTENDS Integers, Sequences, FiniteSets

(***************************************************************************)
(* (b) judgement of one recorded call.  e = [op, fl (flavour of the value: *)
(* "gogo", "googlev1", "google", or "none" for values no runtime owns),    *)
(* st ("ok" | "err" | "panic" | "nil" | "false" | "zero"), and agreement   *)
(* flags measured by the harness with the owning runtime only:             *)
(*   same   1 = the result equals the owning runtime's result              *)
(*   x1, x2 1 = bytes from csproto decode with the runtime to an equal     *)
(*              message / bytes from the runtime decode with csproto to an *)
(*              equal message                                              *)
(*   szok   1 = Size = len(Marshal)     cls = MsgType's answer             *)
(*   errc   the error is the documented sentinel (ErrMarshaler / ...)      *)
(*   stab   1 = the byte slices returned by earlier calls are still what   *)
(*              they were (a result belongs to the caller)]                *)
(***************************************************************************)
Owned == {"gogo", "googlev1", "google"}

ExplainsDispatch(e) ==
  IF e.fl \in Owned
  THEN /\ e.st = "ok"
       /\ e.cls = e.fl
       /\ CASE e.op = "Marshal"     -> e.x1 = 1 /\ e.szok = 1 /\ e.stab = 1
            [] e.op = "MarshalMutated" -> e.x1 = 1 /\ e.szok = 1 /\ e.same = 1 /\ e.stab = 1   \* sized before, nested message changed, marshaled again
            [] e.op = "Unmarshal"   -> e.x2 = 1
            [] e.op = "Size"        -> e.szok = 1
            [] e.op = "GrpcMarshal" -> e.same = 1 /\ e.stab = 1
            [] e.op \in {"Clone", "Equal", "Reset", "MarshalText", "MarshalTextSelf", "UnmarshalEmpty", "GrpcUnmarshal", "GrpcName", "EqualCross", "EqualDiff"} -> e.same = 1
            [] e.op = "MsgType"     -> TRUE
            [] e.op = "MsgTypeConc" -> e.same = 1          \* every racing goroutine got the same, correct class
            [] OTHER -> FALSE
  ELSE \* a value no runtime owns: documented error / zero / nil / false, never a panic (Reset excepted)
       /\ e.cls = "unknown"
       /\ CASE e.op \in {"Marshal", "GrpcMarshal"}     -> e.st = "err" /\ e.errc = 1
            [] e.op \in {"Unmarshal", "GrpcUnmarshal"} -> e.st = "err" /\ e.errc = 1
            [] e.op = "Size"        -> e.st = "zero"
            [] e.op = "Clone"       -> e.st = "nil"
            [] e.op \in {"Equal", "EqualCross", "EqualDiff"} -> e.st = "false"
            [] e.op = "MarshalText" -> e.st = "err"
            [] e.op = "Reset"       -> e.st \in {"panic", "ok"}
            [] e.op \in {"MsgType", "MsgTypeConc"} -> e.st = "ok"
            [] e.op = "GrpcName"    -> e.st = "ok" /\ e.same = 1
            [] OTHER -> FALSE
=============================================================================
