----------------------------- MODULE MCMessage -----------------------------
(***************************************************************************)
(* Model-checking root for Message (C04-C08, C17): the specification is    *)
(* validated against itself on a compact "all shapes" schema.  Two message *)
(* values are built field by field (every presence / cardinality / packing *)
(* / map / oneof / nesting shape with small value domains); in every state *)
(*   RoundTrip   : the canonical encoding parses back to the message       *)
(*   ConcatMerge : parsing a ++ b equals merging the parses of a and b     *)
(*                 (the protobuf concatenation law: last one wins, lists   *)
(*                 append, sub-messages merge, oneofs switch)              *)
(*   SizeIsLen   : SizeRef is the length of the canonical encoding         *)
(*   UnknownKept : unknown fields survive parse and re-encode byte for byte*)
(*   ReqMonotone : a message that satisfies RequiredOK still does after    *)
(*                 more fields are set                                     *)
(***************************************************************************)
EXTENDS Message, TLC

CONSTANT MaxSteps

FDr(n, k, c, t, o, mk, mv, mt, pk) == [n |-> n, k |-> k, c |-> c, t |-> t, o |-> o, mk |-> mk, mv |-> mv, mt |-> mt, pk |-> pk]
S0 == [ T |-> << FDr(1, "int32", "opt", "", "", "", "", "", FALSE),
                 FDr(2, "string", "imp", "", "", "", "", "", FALSE),
                 FDr(3, "sint32", "rep", "", "", "", "", "", TRUE),
                 FDr(4, "fixed32", "rep", "", "", "", "", "", FALSE),
                 FDr(5, "message", "opt", "N", "", "", "", "", FALSE),
                 FDr(6, "map", "map", "", "", "int32", "message", "N", FALSE),
                 FDr(7, "bool", "opt", "", "u", "", "", "", FALSE),
                 FDr(8, "bytes", "opt", "", "u", "", "", "", FALSE),
                 FDr(9, "uint64", "req", "", "", "", "", "", FALSE) >>,
        N |-> << FDr(1, "uint32", "req", "", "", "", "", "", FALSE),
                 FDr(2, "string", "rep", "", "", "", "", "", FALSE) >> ]

VARIABLES a, b, n
vars == <<a, b, n>>

MinusOne == Not(W0)
N1 == [f |-> <<[n |-> 1, p |-> 1, v |-> SV(NatWord(300)), l |-> <<>>, kv |-> <<>>], EmptyField(S0.N[2])>>, u |-> <<>>]
N2 == [f |-> <<EmptyField(S0.N[1]), [n |-> 2, p |-> 1, v |-> ZeroAV, l |-> <<SV(<<>>), SV(<<65>>)>>, kv |-> <<>>]>>, u |-> <<>>]
NE == EmptyMsg(S0, "N")

SetF(m, i, x) == [m EXCEPT !.f = ClearSiblings(S0, "T", [m.f EXCEPT ![i] = x], i)]
Scalar(i, v) == [n |-> S0.T[i].n, p |-> 1, v |-> SV(v), l |-> <<>>, kv |-> <<>>]

\* one building step on message m
Steps(m) ==
  { SetF(m, 1, Scalar(1, v)) : v \in {W0, MinusOne} }
  \cup { SetF(m, 2, Scalar(2, <<104, 105>>)) }
  \cup { [m EXCEPT !.f[3] = [@ EXCEPT !.p = 1, !.l = Append(@, SV(v))]] : v \in {W0, MinusOne} }
  \cup { [m EXCEPT !.f[4] = [@ EXCEPT !.p = 1, !.l = Append(@, SV(<<1, 0, 0, 128>>))]] }
  \cup { SetF(m, 5, [n |-> 5, p |-> 1, v |-> MV(x), l |-> <<>>, kv |-> <<>>]) : x \in {NE, N1, N2} }
  \cup { [m EXCEPT !.f[6] = [@ EXCEPT !.p = 1, !.kv = PutKV(@, [k |-> SV(k), v |-> MV(x)])]] : k \in {W0, MinusOne}, x \in {NE, N1} }
  \cup { SetF(m, 7, Scalar(7, W0)), SetF(m, 8, Scalar(8, <<>>)), SetF(m, 8, Scalar(8, <<0, 255>>)) }
  \cup { SetF(m, 9, Scalar(9, MinusOne)) }
  \cup { [m EXCEPT !.u = @ \o <<160, 6, 1>>] }              \* unknown field 100 (varint)

Init == a = EmptyMsg(S0, "T") /\ b = EmptyMsg(S0, "T") /\ n = 0
Next == /\ n < MaxSteps
        /\ n' = n + 1
        /\ \/ a' \in Steps(a) /\ UNCHANGED b
           \/ b' \in Steps(b) /\ UNCHANGED a
Spec == Init /\ [][Next]_vars

Enc(m) == EncMsg(S0, "T", m)
Par(x) == ParseMsg(S0, "T", x)

RoundTrip   == LET p == Par(Enc(a)) IN p.ok /\ p.conf /\ p.msg = a
ConcatMerge == Par(Enc(a) \o Enc(b)).msg = Merge(S0, "T", a, b)
SizeIsLen   == SizeRef(S0, "T", a) = Len(Enc(a))
UnknownKept == Par(Enc(a)).msg.u = a.u
ReqMonotone == (RequiredOK(S0, "T", a) /\ RequiredOK(S0, "T", b)) => RequiredOK(S0, "T", Merge(S0, "T", a, b))
=============================================================================
