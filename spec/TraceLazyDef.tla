---------------------------- MODULE TraceLazyDef ----------------------------
(* Trace validation of the lazyproto.Def builder scripts (family "def", C13): the model state is the abstract Def;   *)
(* after every recorded operation the real structure, Validate() and NewDecoder's acceptance must equal the model's. *)
EXTENDS LazyDef, Json, TLC
Trace == ndJsonDeserialize("trace.ndjson")
VARIABLES l, d, bad, desync
vars == <<l, d, bad, desync>>
Init == l = 1 /\ d = Empty /\ bad = <<>> /\ desync = <<>>
ToSet(s) == {s[i] : i \in 1..Len(s)}
Apply(e) == IF e.kind = "tags" THEN TagsOn(d, e.h, <<e.t>> \o e.nts) ELSE NestedOn(d, e.h, e.t, e.nts)
B(x) == IF x THEN 1 ELSE 0
OpOK(e, n) ==
  /\ e.st = "ok" /\ e.note = ""
  /\ ToSet(e.paths) = n.paths /\ Len(e.paths) = Cardinality(n.paths)
  /\ ToSet(e.nest) = n.nest /\ Len(e.nest) = Cardinality(n.nest)
  /\ MustBeValid(n) => e.valid = 1
  /\ MustBeInvalid(n) => e.valid = 0
  /\ e.ndec = e.valid                                    \* NewDecoder accepts exactly the definitions Validate accepts
  /\ e.ndecneg = 0                                       \* a negative buffer limit is refused
  /\ e.ndecnil = 0                                       \* a nil filter is refused
  /\ e.ndecopt = e.valid
  /\ e.getok = B(GetRef(n, e.h, e.t).ok) /\ e.getnest = B(GetRef(n, e.h, e.t).nested)
Step == /\ l <= Len(Trace)
        /\ LET e == Trace[l] IN
           /\ l' = l + 1
           /\ CASE e.c = "defnew" -> d' = Empty /\ UNCHANGED <<bad, desync>>
                [] e.c = "defop" /\ e.kind \in {"tags", "nested"} /\ HandleOK(d, e.h) /\ e.st # "harness" ->
                     /\ d' = Apply(e)
                     /\ bad' = IF OpOK(e, Apply(e)) THEN bad ELSE Append(bad, l)
                     /\ UNCHANGED desync
                [] OTHER -> desync' = Append(desync, l) /\ UNCHANGED <<d, bad>>
Spec == Init /\ [][Step]_vars
Report == l = Len(Trace) + 1 => JsonSerialize("result.json", [n |-> Len(Trace), bad |-> bad, drift |-> <<>>, desync |-> desync])
=============================================================================
