------------------------------ MODULE GenCodec ------------------------------
(***************************************************************************)
(* Implementation-shaped model of the size-cache protocol of a generated   *)
(* message type (C09).  The abstract contents of the object are reduced to *)
(* what matters for the protocol: val, a number whose canonical encoding   *)
(* has SizeOf(val) bytes.  The templates' Size() returns the cached size   *)
(* when it is positive (TrustCache) and stores what it computed; Marshal   *)
(* allocates Size() bytes and MarshalTo fills them from the CURRENT        *)
(* contents; Reset/Unmarshal replace the whole struct (cache := 0); a      *)
(* direct field assignment touches only val; the Google v2 runtime's own   *)
(* Size/Marshal recompute and store the cache.                             *)
(*                                                                         *)
(* Sequential part: one mutator thread runs any history of operations.     *)
(* Property MarshalOK: every Marshal returns exactly the encoding of the   *)
(* current contents (modelled as: the buffer length equals SizeOf(val)).   *)
(* With TrustCache = TRUE (the templates as they are) TLC finds the        *)
(* history  Set; Marshal; Set'; Marshal  - kept as an expected-violation   *)
(* configuration documenting the known finding.                            *)
(*                                                                         *)
(* Concurrent part: Readers threads call Size/Marshal on an object nobody  *)
(* mutates, interleaved at the granularity of the atomic load and store    *)
(* of the cache word; ReadersOK: each obtains the encoding of val.         *)
(***************************************************************************)
EXTENDS Integers, FiniteSets, Sequences

CONSTANTS Vals,        \* abstract contents
          TrustCache,  \* Size() returns a positive cached value without recomputing
          Readers,     \* number of concurrent reader threads (0 = sequential model only)
          MaxOps

SizeOf(v) == IF v = 0 THEN 0 ELSE v + 2

VARIABLES val, cache, last, nops, rpc, rsz, rout
vars == <<val, cache, last, nops, rpc, rsz, rout>>

Init == /\ val \in Vals /\ cache = 0 /\ last = [op |-> "new", size |-> 0, want |-> 0] /\ nops = 0
        /\ rpc = [r \in 1..Readers |-> "idle"] /\ rsz = [r \in 1..Readers |-> 0] /\ rout = [r \in 1..Readers |-> -1]

GenSize == IF TrustCache /\ cache > 0 THEN cache ELSE SizeOf(val)

SeqMode == Readers = 0 /\ nops < MaxOps
Set(v)   == SeqMode /\ val' = v /\ last' = [op |-> "set", size |-> 0, want |-> 0] /\ nops' = nops + 1 /\ UNCHANGED <<cache, rpc, rsz, rout>>
Size     == SeqMode /\ cache' = GenSize /\ last' = [op |-> "size", size |-> GenSize, want |-> SizeOf(val)] /\ nops' = nops + 1 /\ UNCHANGED <<val, rpc, rsz, rout>>
Marshal  == SeqMode /\ cache' = GenSize /\ last' = [op |-> "marshal", size |-> GenSize, want |-> SizeOf(val)] /\ nops' = nops + 1 /\ UNCHANGED <<val, rpc, rsz, rout>>
RtSize   == SeqMode /\ cache' = SizeOf(val) /\ last' = [op |-> "rtsize", size |-> SizeOf(val), want |-> SizeOf(val)] /\ nops' = nops + 1 /\ UNCHANGED <<val, rpc, rsz, rout>>
Reset    == SeqMode /\ val' = 0 /\ cache' = 0 /\ last' = [op |-> "reset", size |-> 0, want |-> 0] /\ nops' = nops + 1 /\ UNCHANGED <<rpc, rsz, rout>>
Unmarshal(v) == SeqMode /\ val' = v /\ cache' = 0 /\ last' = [op |-> "unmarshal", size |-> 0, want |-> 0] /\ nops' = nops + 1 /\ UNCHANGED <<rpc, rsz, rout>>

\* readers: load the cache; if it is not positive compute and store; then marshal into a buffer of that size
RLoad(r)    == rpc[r] = "idle" /\ rsz' = [rsz EXCEPT ![r] = cache] /\ rpc' = [rpc EXCEPT ![r] = IF cache > 0 /\ TrustCache THEN "marshal" ELSE "compute"] /\ UNCHANGED <<val, cache, last, nops, rout>>
RCompute(r) == rpc[r] = "compute" /\ rsz' = [rsz EXCEPT ![r] = SizeOf(val)] /\ rpc' = [rpc EXCEPT ![r] = "store"] /\ UNCHANGED <<val, cache, last, nops, rout>>
RStore(r)   == rpc[r] = "store" /\ cache' = rsz[r] /\ rpc' = [rpc EXCEPT ![r] = "marshal"] /\ UNCHANGED <<val, last, nops, rsz, rout>>
RMarshal(r) == rpc[r] = "marshal" /\ rout' = [rout EXCEPT ![r] = rsz[r]] /\ rpc' = [rpc EXCEPT ![r] = "idle"] /\ UNCHANGED <<val, cache, last, nops, rsz>>

Next == \/ \E v \in Vals : Set(v) \/ Unmarshal(v)
        \/ Size \/ Marshal \/ RtSize \/ Reset
        \/ \E r \in 1..Readers : RLoad(r) \/ RCompute(r) \/ RStore(r) \/ RMarshal(r)

Spec == Init /\ [][Next]_vars

\* every Size/Marshal answers for the current contents
MarshalOK == last.op \in {"size", "marshal", "rtsize"} => last.size = last.want
\* the cache is either empty or the size of the current contents (what makes TrustCache sound) - violated after Set
CacheCoherent == cache = 0 \/ cache = SizeOf(val)
ReadersOK == \A r \in 1..Readers : rout[r] \in {-1, SizeOf(val)}
=============================================================================
