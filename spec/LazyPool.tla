------------------------------ MODULE LazyPool ------------------------------
(***************************************************************************)
(* Implementation-shaped model of lazyproto's pooled DecodeResults (C14,    *)
(* C15): a Decoder owns a sync.Pool of top-level result objects and, per    *)
(* nested tag, a pool of nested result objects.  sync.Pool.Get may return   *)
(* ANY pooled object or a fresh one - TLC explores every choice, which no   *)
(* Go test can force - and goroutines interleave at the granularity of      *)
(* pool.Get / pool.Put (the only points at which an object changes hands).  *)
(*                                                                         *)
(* Every recorded slice carries the id of the input it was cut from, so    *)
(* "a result exposes only data of its own input" is the state invariant     *)
(* Isolation.  The model follows decode_result.go: decode APPENDS to data,  *)
(* close truncates data, closes the nested results, trims slices whose      *)
(* capacity exceeds the buffer limit (trunc) and puts the object back.      *)
(* TruncKeepsNil = TRUE reproduces trunc as found (make([]T, n): n nil      *)
(* entries); it is kept as an expected-violation configuration.             *)
(***************************************************************************)
EXTENDS Integers, Sequences, FiniteSets, TLC

CONSTANTS G,             \* number of goroutines
          Inputs,        \* input ids
          NTop,          \* NTop[i]   : occurrences of the flat tag in input i
          NNested,       \* NNested[i]: nested messages in input i
          MaxBuf,        \* -1: no limit, else WithMaxBufferSize(MaxBuf)
          Filter,        \* WithBufferFilterFunc: "none" | "halve" | "zero" | "neg" (a negative answer is ignored)
          MaxObj,        \* bound on the number of objects per level (model bound only)
          TruncKeepsNil, \* trunc as found in the pinned tree
          CloseTruncates, \* FALSE: a mutant whose close() forgets to truncate data
          NestedCloseNoop \* Close() on a nested handle has no effect (skipClose); FALSE: a mutant in which it puts the object into its pool

NIL == 0
Tops    == 1..MaxObj
Nesteds == (MaxObj + 1)..(2 * MaxObj)
Objs    == Tops \cup Nesteds

VARIABLES obj,    \* obj[o] = [st, holder, input, data, closers, capc]
          pc,     \* pc[g] \in {"idle", "hold", "closing"}
          cur,    \* cur[g]: the top-level object goroutine g holds (or NIL)
          panic,  \* a nil closer was dereferenced
          hist    \* operation history (output only; used to emit replay scripts)
vars == <<obj, pc, cur, panic, hist>>

Fresh == [st |-> "free", holder |-> 0, input |-> 0, data |-> <<>>, closers |-> <<>>, capc |-> 0]

Init == /\ obj = [o \in Objs |-> Fresh]
        /\ pc = [g \in 1..G |-> "idle"]
        /\ cur = [g \in 1..G |-> NIL]
        /\ panic = FALSE
        /\ hist = <<>>

Rep(x, n) == [k \in 1..n |-> x]
FilterOf(c) == CASE Filter = "halve" -> c \div 2 [] Filter = "zero" -> 0 [] Filter = "neg" -> -1 [] OTHER -> c
Avail(S) == {o \in S : obj[o].st = "pooled"} \cup
            (IF \E o \in S : obj[o].st = "free" THEN {CHOOSE o \in S : obj[o].st = "free"} ELSE {})

\* Decoder.Decode(input i): pool.Get, then decode appends one slice per occurrence
Decode(g, i) ==
  /\ pc[g] = "idle" /\ ~panic
  /\ \E o \in Avail(Tops) :
       /\ obj' = [obj EXCEPT ![o] = [@ EXCEPT !.st = "held", !.holder = g, !.input = i,
                                              !.data = @ \o Rep(i, NTop[i])]]
       /\ cur' = [cur EXCEPT ![g] = o]
       /\ hist' = Append(hist, <<"decode", g, i, o>>)
  /\ pc' = [pc EXCEPT ![g] = "hold"]
  /\ UNCHANGED panic

\* NestedResults: one nested object per nested message (each a pool.Get of the nested pool)
RECURSIVE TakeNested(_, _, _, _)
TakeNested(ob, ids, i, g) ==
  IF ids = <<>> THEN ob
  ELSE TakeNested([ob EXCEPT ![Head(ids)] = [@ EXCEPT !.st = "held", !.holder = g, !.input = i, !.data = @ \o <<i>>]],
                  Tail(ids), i, g)

SeqsOver(S, n) == {s \in [1..n -> S] : \A a, b \in 1..n : a # b => s[a] # s[b]}

Nested(g) ==
  /\ pc[g] = "hold" /\ ~panic
  /\ LET o == cur[g]
         i == obj[o].input
         n == NNested[i] IN
     /\ n > 0
     /\ Cardinality({x \in Nesteds : obj[x].st \in {"pooled", "free"}}) >= n
     /\ \E ids \in SeqsOver({x \in Nesteds : obj[x].st \in {"pooled", "free"}}, n) :
          /\ obj' = [TakeNested(obj, ids, i, g) EXCEPT ![o].closers = @ \o ids,
                                                        ![o].capc = IF Len(obj[o].closers) + n > @ THEN Len(obj[o].closers) + n ELSE @]
          /\ hist' = Append(hist, <<"nested", g, o, ids>>)
  /\ UNCHANGED <<pc, cur, panic>>

\* an accessor: reads data of the held object (checked by the invariant Isolation)
Read(g) ==
  /\ pc[g] = "hold" /\ ~panic
  /\ hist' = Append(hist, <<"read", g, cur[g]>>)
  /\ UNCHANGED <<obj, pc, cur, panic>>

\* close(): truncate data; close every closer (nil closer = panic); trim; pool.Put
CloseOne(ob, o) == [ob EXCEPT ![o] = [@ EXCEPT !.st = "pooled", !.holder = 0,
                                              !.data = IF CloseTruncates THEN <<>> ELSE @]]
RECURSIVE CloseAll(_, _)
CloseAll(ob, cs) == IF cs = <<>> THEN ob ELSE CloseAll(CloseOne(ob, Head(cs)), Tail(cs))

Close(g) ==
  /\ pc[g] = "hold" /\ ~panic
  /\ LET o == cur[g]
         cs == obj[o].closers IN
     IF \E k \in 1..Len(cs) : cs[k] = NIL
     THEN /\ panic' = TRUE
          /\ hist' = Append(hist, <<"close", g, o>>)
          /\ UNCHANGED <<obj, pc, cur>>
     ELSE LET ob1 == CloseAll(obj, cs)
              \* close(): trunc(maxBuffer) when a limit is set, then trunc(filter(cap())) when a filter is set and answers >= 0
              trim1 == MaxBuf >= 0 /\ obj[o].capc > MaxBuf
              cap1 == IF trim1 THEN MaxBuf ELSE obj[o].capc
              want == FilterOf(cap1)
              trim2 == Filter # "none" /\ want >= 0 /\ cap1 > want
              newcap == IF trim2 THEN want ELSE cap1
              newc == IF (trim1 \/ trim2) /\ TruncKeepsNil THEN Rep(NIL, newcap) ELSE <<>> IN
          /\ obj' = [ob1 EXCEPT ![o] = [@ EXCEPT !.st = "pooled", !.holder = 0,
                                                 !.data = IF CloseTruncates THEN <<>> ELSE @,
                                                 !.closers = newc, !.capc = newcap]]
          /\ pc' = [pc EXCEPT ![g] = "idle"]
          /\ cur' = [cur EXCEPT ![g] = NIL]
          /\ hist' = Append(hist, <<"close", g, o>>)
          /\ UNCHANGED panic

\* Close() called on the handle of a nested result - at any time: while its parent is open, after the parent was closed (a deferred
\* Close that runs late) or even after the object was handed to another result.  It never has any effect (skipClose stays set for the
\* object's whole life); the mutant puts the object into its pool, whoever holds it.
StaleClose(o) == /\ o \in Nesteds /\ obj[o].st # "free" /\ ~panic
                 /\ obj' = IF NestedCloseNoop THEN obj ELSE [obj EXCEPT ![o] = [@ EXCEPT !.st = "pooled", !.holder = 0]]
                 /\ UNCHANGED <<pc, cur, panic, hist>>

\* the garbage collector may empty a sync.Pool at any time
Drop(o) == /\ obj[o].st = "pooled"
           /\ obj' = [obj EXCEPT ![o] = Fresh]
           /\ UNCHANGED <<pc, cur, panic, hist>>

Next == \/ \E g \in 1..G : \/ \E i \in Inputs : Decode(g, i)
                           \/ Nested(g) \/ Read(g) \/ Close(g)
        \/ \E o \in Objs : Drop(o) \/ StaleClose(o)

Spec == Init /\ [][Next]_vars

View == <<obj, pc, cur, panic>>

(***************************************************************************)
(* Properties                                                              *)
(***************************************************************************)
\* every slice a held result exposes was cut from the result's own input
Isolation == \A o \in Objs : obj[o].st = "held" => \A k \in 1..Len(obj[o].data) : obj[o].data[k] = obj[o].input
\* what a result exposes right after Decode is exactly its own input's occurrences
Exact == \A g \in 1..G : pc[g] = "hold" =>
           LET o == cur[g] IN Len(obj[o].data) = NTop[obj[o].input]
NoPanic == ~panic
\* an object is held by exactly one goroutine or is in a pool, never both; nested objects of a
\* held result belong to the same goroutine
Exclusive == /\ \A g1, g2 \in 1..G : g1 # g2 /\ cur[g1] # NIL => cur[g1] # cur[g2]
             /\ \A o \in Objs : obj[o].st = "held" => obj[o].holder \in 1..G
             /\ \A g \in 1..G : cur[g] # NIL =>
                   \A k \in 1..Len(obj[cur[g]].closers) :
                      LET c == obj[cur[g]].closers[k] IN c # NIL => (obj[c].st = "held" /\ obj[c].holder = g)
TypeOK == /\ \A o \in Objs : obj[o].st \in {"free", "pooled", "held"}
          /\ \A g \in 1..G : pc[g] \in {"idle", "hold"}

\* bound the history so that the state space stays finite when hist is part of the state
HistBound == Len(hist) <= 6
=============================================================================
