---------------------------- MODULE MCGenerator ----------------------------
(***************************************************************************)
(* Design-level exploration of the output naming (C16): over every file    *)
(* with up to MaxMsgs messages whose names come from a small pool with     *)
(* nesting and case variants, TLC checks that the as-implemented naming    *)
(* function is distinct exactly when the documented names are - and finds, *)
(* as an expected violation (InjectiveNaming), that the documented         *)
(* per-message naming is not injective: two nested messages with the same  *)
(* short name, or two names differing only in case, map to one file.       *)
(***************************************************************************)
EXTENDS Generator, TLC

CONSTANT MaxMsgs

\* [full, short, lower]
Pool == { [full |-> "A", short |-> "A", lower |-> "a"], [full |-> "B", short |-> "B", lower |-> "b"],
          [full |-> "A.Inner", short |-> "Inner", lower |-> "inner"], [full |-> "B.Inner", short |-> "Inner", lower |-> "inner"],
          [full |-> "Item", short |-> "Item", lower |-> "item"], [full |-> "ITEM", short |-> "ITEM", lower |-> "item"],
          [full |-> "Inner", short |-> "Inner", lower |-> "inner"] }

VARIABLES msgs, permsg
vars == <<msgs, permsg>>

Init == msgs = <<>> /\ permsg \in BOOLEAN
Next == /\ Len(msgs) < MaxMsgs
        /\ \E m \in Pool : (\A i \in 1..Len(msgs) : msgs[i].full # m.full) /\ msgs' = Append(msgs, m)
        /\ UNCHANGED permsg
Spec == Init /\ [][Next]_vars

Req == [prefix |-> "f", msgs |-> msgs, permsg |-> permsg]
\* the as-implemented naming is the documented one
ImplNames == DocumentedNames(Req)

\* single-file mode always yields one distinct name
SingleOK == ~permsg => (Len(ImplNames) = 1 /\ Distinct(ImplNames))
\* per-message mode: one name per message
OnePerMessage == permsg => Len(ImplNames) = Len(msgs)
\* expected violation: messages with distinct full names get distinct files
InjectiveNaming == permsg => Distinct(ImplNames)

\* ---- the parameter domain (spec -> code): TLC prints every (key, value) pair of a bounded domain once; the harness runs the plug-in with
\* each of them and TraceGenerator requires acceptance exactly where Generator!ParamOK holds
ParamKeys == {"apiversion", "filepermessage", "enableunsafedecode", "debug", "specialname", "dest", "Apiversion", "filePerMessage", "unsafe", "bogus"}
ParamVals == {"", "v1", "v2", "V1", "V2", "v3", "2", "true", "false", "TRUE", "False", "1", "0", "t", "F", "yes", "no", "on", "tRuE", "Size", "a b"}
EmitParams == (msgs = <<>> /\ permsg) => \A k \in ParamKeys : \A v \in ParamVals : PrintT(<<"PARAM", k, v>>)
=============================================================================
