------------------------------ MODULE Generator ------------------------------
(***************************************************************************)
(* protoc-gen-fastmarshal as a function from a request to a set of output  *)
(* files (C16).  A request is [prefix, msgs, permsg] where msgs is the     *)
(* sequence of [short, lower] names (short message name and its lower-case *)
(* form) of every non-map-entry message of the file, nested ones included, *)
(* and permsg says whether filepermessage=true.  The documented naming:    *)
(*   single file : <prefix>.pb.fm.go                                       *)
(*   per message : <prefix>_<lower(short message name)>.pb.fm.go           *)
(* Requirement on an observed run (GenOK): the plug-in succeeds, twice,    *)
(* with byte-identical output; every output name is emitted exactly once;  *)
(* the set of names is the documented one whenever the documented names    *)
(* are pairwise distinct (any distinct naming is accepted otherwise); every *)
(* file parses as Go and the package compiles with the runtime's types.    *)
(***************************************************************************)
EXTENDS Integers, Sequences, FiniteSets

ToSet(s) == {s[i] : i \in 1..Len(s)}
Distinct(s) == \A i, j \in 1..Len(s) : i # j => s[i] # s[j]

DocumentedNames(req) ==
  IF req.permsg THEN [i \in 1..Len(req.msgs) |-> req.prefix \o "_" \o req.msgs[i].lower \o ".pb.fm.go"]
  ELSE <<req.prefix \o ".pb.fm.go">>

\* o = [err1, err2, names, sha1, sha2, multi, err3, sha3, parsed, compiled]
Total(o)         == o.err1 = "" /\ o.err2 = ""
Deterministic(o) == o.err1 = o.err2 /\ o.sha1 = o.sha2
DistinctOnce(req, o) ==
  /\ Distinct(o.names)
  /\ Len(o.names) = Len(DocumentedNames(req))
  /\ Distinct(DocumentedNames(req)) => ToSet(o.names) = ToSet(DocumentedNames(req))
\* A request may name several files to generate (protoc a.proto b.proto); the plug-in is a per-file function: what it emits for a file
\* is what it emits for that file alone.  o.multi = 1: a two-file request was run with this file second; sha3 = its outputs there.
Compositional(o) == o.multi = 1 => (o.err3 = "" /\ o.sha3 = o.sha1)
ValidGo(o)       == (\A i \in 1..Len(o.parsed) : o.parsed[i] = 1) /\ o.compiled = 1

GenOK(req, o) == Total(o) /\ Deterministic(o) /\ Compositional(o) /\ DistinctOnce(req, o) /\ ValidGo(o)

(***************************************************************************)
(* Parameter parsing (run.go): apiversion in {v1, v2} in any letter case    *)
(* (default v1), three booleans in strconv.ParseBool's spellings, a set of *)
(* special names, dest; anything else is an error.  Bound to the code:     *)
(* MCGenerator prints a bounded (key, value) domain, the plug-in is run    *)
(* once per pair, TraceGenerator requires acceptance iff ParamOK.          *)
(***************************************************************************)
Bools == {"true", "false", "1", "0", "t", "f", "T", "F", "TRUE", "FALSE", "True", "False"}
ParamOK(k, v) ==
  CASE k = "apiversion" -> v \in {"v1", "v2", "V1", "V2"}
    [] k \in {"filepermessage", "enableunsafedecode", "debug"} -> v \in Bools      \* (a bare "filepermessage" is refused: the flag set is
                                                                                   \*  fed through flag.Set, which has no implicit "true")
    [] k \in {"specialname", "dest", "paths", "module"} -> TRUE
    [] OTHER -> FALSE
=============================================================================
