----------------------------- MODULE MCDispatch -----------------------------
EXTENDS Dispatch
ClassDef == [t \in {"tGogo", "tV2", "tPlain"} |-> IF t = "tGogo" THEN "gogo" ELSE IF t = "tV2" THEN "google" ELSE "unknown"]
=============================================================================
