---------------------------- MODULE GenMapEntry ----------------------------
(***************************************************************************)
(* The map-entry decoder that protoc-gen-fastmarshal emits (template       *)
(* UnmarshalMapEntry) as an implementation-shaped cursor machine over the  *)
(* primitives of DecoderImpl, and the reference meaning of a map entry     *)
(* (Message!ParseEntry: key and value optional, in either order, last one  *)
(* wins, defaults when omitted).  TLC checks over every entry payload of a *)
(* bounded alphabet, followed or not by another field of the enclosing     *)
(* message, that the machine                                               *)
(*   - never accepts what the reference rejects, and yields its values,    *)
(*   - accepts every conforming entry,                                     *)
(*   - leaves the cursor exactly at the end of the entry.                  *)
(* The entry decoder reads from the enclosing message's buffer (there is   *)
(* no sub-slice), which is why the third clause is not a triviality.       *)
(*                                                                         *)
(* Bounded = FALSE is the template as found before f84cbd9: it read one    *)
(* key and one value, whatever the declared entry size (expected           *)
(* violation, MCGenMapEntry_unbounded.cfg).  MCGenMapEntry explores the    *)
(* domain; TraceMapEntry judges what the real generated code did on the    *)
(* same domain.                                                            *)
(***************************************************************************)
EXTENDS Message, TLC
D == INSTANCE DecoderImpl

\* (key kind, value kind) pairs of the checked map fields: varint and length-delimited on either side
Kinds == { <<"int32", "int32">>, <<"string", "string">>, <<"string", "int32">>, <<"bool", "string">> }
\* what may follow the entry in the enclosing message: nothing, or one more field (number 15, unknown to the corpus types used)
Tails == { <<>>, <<120, 1>> }

\* ---- the generated code -------------------------------------------------------------------
OpOf(k) == CASE k = "int32" -> "Int32" [] k = "bool" -> "Bool" [] k = "uint64" -> "UInt64" [] OTHER -> "Bytes"
Err == [ok |-> FALSE, k |-> <<>>, v |-> <<>>, off |-> 0]

\* one scalar of kind k at cursor p of buffer b: DecoderImpl's Out record
ReadScalar(b, p, k) == IF OpOf(k) = "Bytes" THEN D!ImplBytes(b, p) ELSE D!ImplVarintOp(b, p, OpOf(k))

RECURSIVE EntryLoop(_, _, _, _, _, _, _)
EntryLoop(b, off, end, mk, mv, k, v) ==
  IF off >= end
  THEN (IF off = end THEN [ok |-> TRUE, k |-> k, v |-> v, off |-> off] ELSE Err)   \* "does not match its declared size"
  ELSE LET t == D!ImplTag(b, off) IN
       IF t.st # "ok" THEN Err
       ELSE LET fn == t.val[1]
                wt == t.val[2] IN
            IF fn = 1
            THEN IF wt # KindWt(mk) THEN Err
                 ELSE LET r == ReadScalar(b, t.off, mk) IN
                      IF r.st # "ok" THEN Err ELSE EntryLoop(b, r.off, end, mk, mv, r.val, v)
            ELSE IF fn = 2
            THEN IF wt # KindWt(mv) THEN Err
                 ELSE LET r == ReadScalar(b, t.off, mv) IN
                      IF r.st # "ok" THEN Err ELSE EntryLoop(b, r.off, end, mk, mv, k, r.val)
            ELSE Err                                                               \* "invalid map entry field tag"

\* as found before f84cbd9: exactly one key, then exactly one value
EntryUnbounded(b, off, mk, mv) ==
  LET t1 == D!ImplTag(b, off) IN
  IF t1.st # "ok" \/ t1.val[1] # 1 \/ t1.val[2] # KindWt(mk) THEN Err
  ELSE LET r1 == ReadScalar(b, t1.off, mk) IN
       IF r1.st # "ok" THEN Err
       ELSE LET t2 == D!ImplTag(b, r1.off) IN
            IF t2.st # "ok" \/ t2.val[1] # 2 \/ t2.val[2] # KindWt(mv) THEN Err
            ELSE LET r2 == ReadScalar(b, t2.off, mv) IN
                 IF r2.st # "ok" THEN Err ELSE [ok |-> TRUE, k |-> r1.val, v |-> r2.val, off |-> r2.off]

\* the entry decoder at cursor p (on the entry's length prefix) of the enclosing message's buffer b
Entry(b, p, mk, mv, bounded) ==
  LET l == D!ImplVarintOp(b, p, "Int32") IN
  IF l.st # "ok" \/ ~FitsNat(l.val) THEN Err                                      \* DecodeInt32; entrySize < 0
  ELSE LET end == l.off + WordNat(l.val) IN
       IF end > Len(b) THEN Err
       ELSE IF bounded THEN EntryLoop(b, l.off, end, mk, mv, ZeroOf(mk), ZeroOf(mv))
            ELSE EntryUnbounded(b, l.off, mk, mv)

\* ---- the requirement, for an entry payload pl followed by tl in the enclosing buffer ------------
BufOf(pl, tl) == EncVarint(NatWord(Len(pl))) \o pl \o tl
EndOf(pl) == Len(EncVarint(NatWord(Len(pl)))) + Len(pl)
ImplOf(pl, tl, ks, bounded) == Entry(BufOf(pl, tl), 0, ks[1], ks[2], bounded)
RefOf(pl, ks) == ParseEntry(<<>>, [mk |-> ks[1], mv |-> ks[2], mt |-> ""], pl)

SoundFor(i, r)    == i.ok => (r.ok /\ i.k = r.k.s /\ i.v = r.v.s)
CompleteFor(i, r) == (r.ok /\ r.conf) => i.ok
LandsFor(i, pl)   == i.ok => i.off = EndOf(pl)
=============================================================================
