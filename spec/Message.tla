------------------------------ MODULE Message ------------------------------
(***************************************************************************)
(* Schema-driven reference semantics of protobuf messages (C04-C10, C17):  *)
(* the reference unmarshal ParseRef of a byte string under a schema given  *)
(* as DATA, with last-one-wins for singular scalars, merging of singular   *)
(* message fields, packed/unpacked/mixed repeated scalars, map entries     *)
(* with default key/value and last-key-wins, oneof members clearing their  *)
(* siblings, retention of unknown fields, and the proto2 required check.   *)
(*                                                                         *)
(* Schema:   S[T] = << [n, k, c, t, o, mk, mv, mt] , ... >>  per message    *)
(*           type T (full name);  k = kind; c \in {"opt","req","imp","rep", *)
(*           "map"}; t = message type (k = "message"); o = oneof group;     *)
(*           mk, mv, mt = map key kind, value kind, value message type.     *)
(* Abstract message (the shape the Go walkers produce as well):            *)
(*   [f |-> << field >>, u |-> unknown bytes]  with one entry per schema   *)
(*   field, in schema order:  [n, p, v, l, kv]                              *)
(*   p = 1 iff present (explicit presence: set; implicit: non-zero;        *)
(*   repeated/map: non-empty);  v = [s |-> scalar, m |-> << message >>];   *)
(*   l = list of values; kv = << [k, v] >> sorted by key.                  *)
(***************************************************************************)
EXTENDS Wire, SequencesExt

ZeroAV == [s |-> <<>>, m |-> <<>>]
SV(x) == [s |-> x, m |-> <<>>]
MV(x) == [s |-> <<>>, m |-> <<x>>]

EmptyField(fd) == [n |-> fd.n, p |-> 0, v |-> ZeroAV, l |-> <<>>, kv |-> <<>>]
EmptyMsg(S, T) == [f |-> [i \in 1..Len(S[T]) |-> EmptyField(S[T][i])], u |-> <<>>]

FieldIdx(S, T, fn) == IF \E i \in 1..Len(S[T]) : S[T][i].n = fn
                      THEN CHOOSE i \in 1..Len(S[T]) : S[T][i].n = fn ELSE 0

Packable(k) == k \in VarintKinds \cup Fixed32Kinds \cup Fixed64Kinds
WtOf(k) == IF k = "message" THEN 2 ELSE KindWt(k)

\* the zero value of a scalar kind in the abstract representation
ZeroOf(k) == IF k \in VarintKinds THEN W0
             ELSE IF k \in Fixed32Kinds THEN <<0, 0, 0, 0>>
             ELSE IF k \in Fixed64Kinds THEN <<0, 0, 0, 0, 0, 0, 0, 0>> ELSE <<>>

\* value of kind k from a varint word (what the reference runtime stores); ex = the word was in range
FromWord(k, w) ==
  CASE k = "bool"   -> [v |-> IF w = W0 THEN W0 ELSE NatWord(1), ex |-> w \in {W0, NatWord(1)}]
    [] k \in {"int32", "enum"} -> [v |-> SExt32(Low32(w)), ex |-> IsS32(w)]
    [] k = "uint32" -> [v |-> Low32(w), ex |-> FitsU32(w)]
    [] k = "sint32" -> [v |-> UnZigZag(Low32(w)), ex |-> FitsU32(w)]
    [] k = "sint64" -> [v |-> UnZigZag(w), ex |-> TRUE]
    [] OTHER        -> [v |-> w, ex |-> TRUE]

\* lexicographic order on integer sequences (length first): the canonical order of map keys
RECURSIVE SeqLess(_, _)
SeqLess(a, b) == IF Len(a) # Len(b) THEN Len(a) < Len(b)
                 ELSE IF a = <<>> THEN FALSE
                 ELSE IF Head(a) # Head(b) THEN Head(a) < Head(b)
                 ELSE SeqLess(Tail(a), Tail(b))

\* insert or replace entry e in the key-sorted list kv
PutKV(kv, e) ==
  LET without == SelectSeq(kv, LAMBDA x : x.k # e.k)
      before  == SelectSeq(without, LAMBDA x : SeqLess(x.k.s, e.k.s))
      after   == SelectSeq(without, LAMBDA x : ~SeqLess(x.k.s, e.k.s))
  IN before \o <<e>> \o after

\* result of a parse: ok = well formed; conf = every field had the wire type and range the schema expects
Res(ok, conf, m) == [ok |-> ok, conf |-> conf, msg |-> m]

\* elements of a packed run p of kind k: [ok, conf, vals]
RECURSIVE Unpack(_, _, _)
Unpack(k, p, r) ==
  IF r = Len(p) THEN [ok |-> TRUE, conf |-> TRUE, vals |-> <<>>]
  ELSE IF k \in VarintKinds
       THEN LET v == VarintAt(p, r) IN
            IF v.n = 0 THEN [ok |-> FALSE, conf |-> FALSE, vals |-> <<>>]
            ELSE LET rest == Unpack(k, p, r + v.n)
                     fw == FromWord(k, v.w) IN
                 [ok |-> rest.ok, conf |-> rest.conf /\ fw.ex /\ ~v.big, vals |-> <<SV(fw.v)>> \o rest.vals]
       ELSE LET w == IF k \in Fixed32Kinds THEN 4 ELSE 8 IN
            IF Len(p) - r < w THEN [ok |-> FALSE, conf |-> FALSE, vals |-> <<>>]
            ELSE LET rest == Unpack(k, p, r + w) IN
                 [ok |-> rest.ok, conf |-> rest.conf, vals |-> <<SV(Slice(p, r, r + w))>> \o rest.vals]

\* scalar value of kind k from a wire field f of buffer b (wire type already known to fit)
ScalarOf(k, b, f) ==
  IF k \in VarintKinds
  THEN LET v == VarintAt(b, f.pay)
           fw == FromWord(k, v.w) IN [v |-> fw.v, ex |-> fw.ex /\ ~v.big]
  ELSE [v |-> Slice(b, f.pay, f.end), ex |-> TRUE]

RECURSIVE ParseMsg(_, _, _), ParseFrom(_, _, _, _, _), Merge(_, _, _, _), MergeFields(_, _, _, _, _)

\* merge message b into a (both of type T): protobuf merge semantics
MergeFields(S, T, fa, fb, i) ==
  IF i > Len(fa) THEN <<>>
  ELSE LET fd == S[T][i]
           x == fa[i]
           y == fb[i]
           merged ==
             IF y.p = 0 THEN x
             ELSE IF fd.c = "rep" THEN [x EXCEPT !.p = 1, !.l = x.l \o y.l]
             ELSE IF fd.c = "map" THEN [x EXCEPT !.p = 1, !.kv = FoldLeft(PutKV, x.kv, y.kv)]
             ELSE IF fd.k = "message" /\ x.p = 1
                  THEN [x EXCEPT !.v = MV(Merge(S, fd.t, x.v.m[1], y.v.m[1]))]
             ELSE y
       IN <<merged>> \o MergeFields(S, T, fa, fb, i + 1)

\* setting a oneof member clears the other members of its group
ClearSiblings(S, T, fs, i) ==
  LET g == S[T][i].o IN
  IF g = "" THEN fs
  ELSE [j \in 1..Len(fs) |-> IF j # i /\ S[T][j].o = g THEN EmptyField(S[T][j]) ELSE fs[j]]

Merge(S, T, a, b) ==
  LET step1 == MergeFields(S, T, a.f, b.f, 1)
      \* oneof groups: a member set in b clears the other members of its group
      fix == [i \in 1..Len(step1) |->
                IF S[T][i].o # "" /\ b.f[i].p = 0 /\
                   \E j \in 1..Len(step1) : j # i /\ S[T][j].o = S[T][i].o /\ b.f[j].p = 1
                THEN EmptyField(S[T][i]) ELSE step1[i]]
  IN [f |-> fix, u |-> a.u \o b.u]

\* a map entry payload: key (field 1) and value (field 2), defaults when omitted, last one wins
ParseEntry(S, fd, p) ==
  LET fs == ParseAll(p) IN
  IF \E i \in 1..Len(fs) : ~fs[i].ok THEN [ok |-> FALSE, conf |-> FALSE, k |-> ZeroAV, v |-> ZeroAV]
  ELSE LET ks == SelectSeq(fs, LAMBDA f : f.fn = 1 /\ f.wt = WtOf(fd.mk))
           vs == SelectSeq(fs, LAMBDA f : f.fn = 2 /\ f.wt = WtOf(fd.mv))
           odd == \E i \in 1..Len(fs) : ~(fs[i].fn = 1 /\ fs[i].wt = WtOf(fd.mk)) /\ ~(fs[i].fn = 2 /\ fs[i].wt = WtOf(fd.mv))
           kk == IF ks = <<>> THEN [v |-> ZeroOf(fd.mk), ex |-> TRUE] ELSE ScalarOf(fd.mk, p, ks[Len(ks)])
           vv == IF fd.mv = "message"
                 THEN (IF vs = <<>> THEN [ok |-> TRUE, conf |-> TRUE, v |-> MV(EmptyMsg(S, fd.mt))]
                       ELSE \* several value occurrences merge
                            LET parts == [i \in 1..Len(vs) |-> ParseMsg(S, fd.mt, Slice(p, vs[i].pay, vs[i].end))] IN
                            [ok |-> \A i \in 1..Len(parts) : parts[i].ok,
                             conf |-> \A i \in 1..Len(parts) : parts[i].conf,
                             v |-> MV(FoldLeft(LAMBDA acc, x : Merge(S, fd.mt, acc, x.msg), parts[1].msg, Tail(parts)))])
                 ELSE (IF vs = <<>> THEN [ok |-> TRUE, conf |-> TRUE, v |-> SV(ZeroOf(fd.mv))]
                       ELSE LET sc == ScalarOf(fd.mv, p, vs[Len(vs)]) IN [ok |-> TRUE, conf |-> sc.ex, v |-> SV(sc.v)])
       IN [ok |-> vv.ok, conf |-> ~odd /\ kk.ex /\ vv.conf, k |-> SV(kk.v), v |-> vv.v]

\* fold the wire fields of b (from cursor p) into acc
ParseFrom(S, T, b, p, acc) ==
  IF p >= Len(b) THEN acc
  ELSE LET f == FieldAt(b, p) IN
       IF ~f.ok THEN Res(FALSE, FALSE, acc.msg)
       ELSE LET i == FieldIdx(S, T, f.fn)
                m == acc.msg IN
            IF i = 0
            THEN ParseFrom(S, T, b, f.end, Res(acc.ok, acc.conf /\ f.canon, [m EXCEPT !.u = @ \o Slice(b, f.start, f.end)]))
            ELSE LET fd == S[T][i]
                     cur == m.f[i] IN
                 IF fd.c = "map"
                 THEN IF f.wt # 2 THEN ParseFrom(S, T, b, f.end, Res(acc.ok, FALSE, m))
                      ELSE LET e == ParseEntry(S, fd, Slice(b, f.pay, f.end)) IN
                           IF ~e.ok THEN Res(FALSE, FALSE, m)
                           ELSE ParseFrom(S, T, b, f.end, Res(acc.ok, acc.conf /\ e.conf,
                                  [m EXCEPT !.f[i] = [cur EXCEPT !.p = 1, !.kv = PutKV(@, [k |-> e.k, v |-> e.v])]]))
                 ELSE IF fd.c = "rep" /\ Packable(fd.k) /\ f.wt = 2
                 THEN LET u == Unpack(fd.k, Slice(b, f.pay, f.end), 0) IN
                      IF ~u.ok THEN Res(FALSE, FALSE, m)
                      ELSE ParseFrom(S, T, b, f.end, Res(acc.ok, acc.conf /\ u.conf,
                             [m EXCEPT !.f[i] = [cur EXCEPT !.p = IF cur.l \o u.vals = <<>> THEN 0 ELSE 1, !.l = @ \o u.vals]]))
                 ELSE IF f.wt # WtOf(fd.k) THEN ParseFrom(S, T, b, f.end, Res(acc.ok, FALSE, m))
                 ELSE IF fd.k = "message"
                 THEN LET sub == ParseMsg(S, fd.t, Slice(b, f.pay, f.end)) IN
                      IF ~sub.ok THEN Res(FALSE, FALSE, m)
                      ELSE IF fd.c = "rep"
                           THEN ParseFrom(S, T, b, f.end, Res(acc.ok, acc.conf /\ sub.conf,
                                  [m EXCEPT !.f[i] = [cur EXCEPT !.p = 1, !.l = Append(@, MV(sub.msg))]]))
                           ELSE LET nv == IF cur.p = 1 THEN Merge(S, fd.t, cur.v.m[1], sub.msg) ELSE sub.msg
                                    fs2 == ClearSiblings(S, T, [m.f EXCEPT ![i] = [cur EXCEPT !.p = 1, !.v = MV(nv)]], i) IN
                                ParseFrom(S, T, b, f.end, Res(acc.ok, acc.conf /\ sub.conf, [m EXCEPT !.f = fs2]))
                 ELSE LET sc == ScalarOf(fd.k, b, f) IN
                      IF fd.c = "rep"
                      THEN ParseFrom(S, T, b, f.end, Res(acc.ok, acc.conf /\ sc.ex,
                             [m EXCEPT !.f[i] = [cur EXCEPT !.p = 1, !.l = Append(@, SV(sc.v))]]))
                      ELSE LET pres == IF fd.c = "imp" THEN (IF sc.v = ZeroOf(fd.k) THEN 0 ELSE 1) ELSE 1
                               nf == IF pres = 1 THEN [cur EXCEPT !.p = 1, !.v = SV(sc.v)] ELSE EmptyField(fd)
                               fs2 == ClearSiblings(S, T, [m.f EXCEPT ![i] = nf], i) IN
                           ParseFrom(S, T, b, f.end, Res(acc.ok, acc.conf /\ sc.ex, [m EXCEPT !.f = fs2]))

ParseMsg(S, T, b) == ParseFrom(S, T, b, 0, Res(TRUE, TRUE, EmptyMsg(S, T)))

\* proto2 required fields, recursively through set message fields, list elements and map values
RECURSIVE RequiredOK(_, _, _)
RequiredOK(S, T, m) ==
  \A i \in 1..Len(S[T]) :
     LET fd == S[T][i]
         x == m.f[i] IN
     /\ fd.c = "req" => x.p = 1
     /\ (fd.k = "message" /\ fd.c \in {"opt", "req", "imp"} /\ x.p = 1) => RequiredOK(S, fd.t, x.v.m[1])
     /\ (fd.k = "message" /\ fd.c = "rep") => \A j \in 1..Len(x.l) : RequiredOK(S, fd.t, x.l[j].m[1])
     /\ (fd.c = "map" /\ fd.mv = "message") => \A j \in 1..Len(x.kv) : RequiredOK(S, fd.mt, x.kv[j].v.m[1])

\* the message without its unknown fields (recursively): what a schema-aware reader sees
RECURSIVE Known(_, _, _)
Known(S, T, m) ==
  [f |-> [i \in 1..Len(m.f) |->
            LET fd == S[T][i]
                x == m.f[i] IN
            IF fd.k = "message" /\ fd.c \in {"opt", "req", "imp"} /\ x.p = 1
            THEN [x EXCEPT !.v = MV(Known(S, fd.t, x.v.m[1]))]
            ELSE IF fd.k = "message" /\ fd.c = "rep"
            THEN [x EXCEPT !.l = [j \in 1..Len(x.l) |-> MV(Known(S, fd.t, x.l[j].m[1]))]]
            ELSE IF fd.c = "map" /\ fd.mv = "message"
            THEN [x EXCEPT !.kv = [j \in 1..Len(x.kv) |-> [k |-> x.kv[j].k, v |-> MV(Known(S, fd.mt, x.kv[j].v.m[1]))]]]
            ELSE x],
   u |-> <<>>]


\* the unknown bytes of a message and of all messages nested in it (same shape as the message)
RECURSIVE Unknowns(_, _, _)
Unknowns(S, T, m) ==
  [u |-> m.u,
   sub |-> [i \in 1..Len(m.f) |->
              LET fd == S[T][i]
                  x == m.f[i] IN
              IF fd.k = "message" /\ fd.c \in {"opt", "req", "imp"} /\ x.p = 1 THEN <<Unknowns(S, fd.t, x.v.m[1])>>
              ELSE IF fd.k = "message" /\ fd.c = "rep" THEN [j \in 1..Len(x.l) |-> Unknowns(S, fd.t, x.l[j].m[1])]
              ELSE IF fd.c = "map" /\ fd.mv = "message" THEN [j \in 1..Len(x.kv) |-> Unknowns(S, fd.mt, x.kv[j].v.m[1])]
              ELSE <<>>]]

\* Unknown bytes up to the encoding of their keys.  Both Go runtimes re-encode the key of an unknown field minimally when they keep it
\* (generated code and the reference parse keep the bytes as they came): two messages are the same message when their unknown fields
\* agree in number, wire type and payload, in order.
RECURSIVE CanonKeysFrom(_, _)
CanonKeysFrom(u, p) == IF p >= Len(u) THEN <<>>
                       ELSE LET f == FieldAt(u, p) IN
                            IF ~f.ok THEN Slice(u, p, Len(u))                  \* (not a field sequence: left as it is)
                            ELSE EncKey(f.fn, f.wt) \o Slice(u, p + VarintAt(u, p).n, f.end) \o CanonKeysFrom(u, f.end)
CanonKeys(u) == CanonKeysFrom(u, 0)
RECURSIVE CanonUnknowns(_)
CanonUnknowns(t) == [u |-> CanonKeys(t.u),
                     sub |-> [i \in 1..Len(t.sub) |-> [j \in 1..Len(t.sub[i]) |-> CanonUnknowns(t.sub[i][j])]]]
\* equality of two abstract messages of type T up to the key encoding of unknown fields
SameMessage(S, T, a, b) == Known(S, T, a) = Known(S, T, b) /\ CanonUnknowns(Unknowns(S, T, a)) = CanonUnknowns(Unknowns(S, T, b))

(***************************************************************************)
(* The canonical encoding of an abstract message: fields in schema order,  *)
(* packing as declared, map entries with key and value always present,     *)
(* unknown bytes last.  SizeRef is its length.                             *)
(***************************************************************************)
LenPrefixed(b) == EncVarint(NatWord(Len(b))) \o b

RECURSIVE EncMsg(_, _, _)
EncField(S, fd, x) ==
  IF x.p = 0 THEN <<>>
  ELSE IF fd.c = "map"
       THEN Concat([j \in 1..Len(x.kv) |->
                      LET e == x.kv[j]
                          body == EncKey(1, WtOf(fd.mk)) \o EncElem(fd.mk, e.k.s) \o
                                  (IF fd.mv = "message" THEN EncKey(2, 2) \o LenPrefixed(EncMsg(S, fd.mt, e.v.m[1]))
                                   ELSE EncKey(2, WtOf(fd.mv)) \o EncElem(fd.mv, e.v.s))
                      IN EncKey(fd.n, 2) \o LenPrefixed(body)])
  ELSE IF fd.c = "rep" /\ fd.k = "message"
       THEN Concat([j \in 1..Len(x.l) |-> EncKey(fd.n, 2) \o LenPrefixed(EncMsg(S, fd.t, x.l[j].m[1]))])
  ELSE IF fd.c = "rep" /\ fd.pk /\ Packable(fd.k)
       THEN EncKey(fd.n, 2) \o LenPrefixed(Concat([j \in 1..Len(x.l) |-> EncElem(fd.k, x.l[j].s)]))
  ELSE IF fd.c = "rep"
       THEN Concat([j \in 1..Len(x.l) |-> EncKey(fd.n, WtOf(fd.k)) \o EncElem(fd.k, x.l[j].s)])
  ELSE IF fd.k = "message" THEN EncKey(fd.n, 2) \o LenPrefixed(EncMsg(S, fd.t, x.v.m[1]))
  ELSE EncKey(fd.n, WtOf(fd.k)) \o EncElem(fd.k, x.v.s)

EncMsg(S, T, m) == Concat([i \in 1..Len(S[T]) |-> EncField(S, S[T][i], m.f[i])]) \o m.u
SizeRef(S, T, m) == Len(EncMsg(S, T, m))
=============================================================================
