--------------------------- MODULE TraceMapEntry ---------------------------
(* Trace validation for the mapentry family: the generated map-entry decoder of the real code, run on every payload of the bounded   *)
(* domain, judged against the reference meaning of a map entry (bad) and compared with the implementation-shaped model (drift).      *)
EXTENDS GenMapEntry, Json
Trace == ndJsonDeserialize("trace.ndjson")
VARIABLES l, bad, drift, desync
tvars == <<l, bad, drift, desync>>
TInit == l = 1 /\ bad = <<>> /\ drift = <<>> /\ desync = <<>>

Obs(e) == [ok |-> e.st = "ok", k |-> e.k, v |-> e.v]
\* the requirement: no panic; never accept what the reference rejects, and yield its key and value; accept every conforming entry; exactly
\* one entry results and the field after the entry is still read (it is unknown to the type: retained verbatim)
ReqOK(e) == LET r == RefOf(e.payload, <<e.kinds[1], e.kinds[2]>>) IN
            /\ e.st # "panic"
            /\ SoundFor(Obs(e), r)
            /\ CompleteFor(Obs(e), r)
            /\ e.st = "ok" => (e.n = 1 /\ e.u = e.tail)
\* the implementation-shaped model predicts the outcome exactly
ModelOK(e) == LET i == ImplOf(e.payload, e.tail, <<e.kinds[1], e.kinds[2]>>, TRUE) IN
              /\ (e.st = "ok") = i.ok
              /\ i.ok => (e.k = i.k /\ e.v = i.v)

TStep == /\ l <= Len(Trace)
         /\ LET e == Trace[l] IN
            /\ l' = l + 1
            /\ IF e.c = "mapentry"
               THEN /\ bad' = IF ReqOK(e) THEN bad ELSE Append(bad, l)
                    /\ drift' = IF ModelOK(e) THEN drift ELSE Append(drift, l)
                    /\ UNCHANGED desync
               ELSE desync' = Append(desync, l) /\ UNCHANGED <<bad, drift>>
TSpec == TInit /\ [][TStep]_tvars
Report == l = Len(Trace) + 1 => JsonSerialize("result.json", [n |-> Len(Trace), bad |-> bad, drift |-> drift, desync |-> desync])
=============================================================================
