// Package tr holds the trace-event plumbing shared by the conformance harnesses:
// the uniform JSON event shape read by the TLA+ trace specifications, the 64-bit
// word <-> base-128 digit conversion, and the allocation probe.
package tr

import (
	"bufio"
	"encoding/json"
	"math"
	"os"
	"runtime"
)

// Word returns the ten base-128 digits (little endian) of v: d[i] = (v >> 7i) & 0x7f.
func Word(v uint64) []int {
	d := make([]int, 10)
	for i := 0; i < 10; i++ {
		d[i] = int((v >> (7 * uint(i))) & 0x7f)
	}
	return d
}

// FromWord is the inverse of Word.
func FromWord(d []int) uint64 {
	var v uint64
	for i := 0; i < 10 && i < len(d); i++ {
		v |= uint64(d[i]) << (7 * uint(i))
	}
	return v
}

// Bytes converts a byte slice to a slice of ints (never nil).
func Bytes(b []byte) []int {
	r := make([]int, len(b))
	for i, x := range b {
		r[i] = int(x)
	}
	return r
}

// ToBytes converts a slice of ints to bytes.
func ToBytes(a []int) []byte {
	r := make([]byte, len(a))
	for i, x := range a {
		r[i] = byte(x)
	}
	return r
}

// LE32 / LE64 return the little-endian bytes of v as ints.
func LE32(v uint32) []int {
	return []int{int(v & 0xff), int(v >> 8 & 0xff), int(v >> 16 & 0xff), int(v >> 24 & 0xff)}
}
func LE64(v uint64) []int {
	r := make([]int, 8)
	for i := 0; i < 8; i++ {
		r[i] = int(v >> (8 * uint(i)) & 0xff)
	}
	return r
}
func F32(v float32) []int { return LE32(math.Float32bits(v)) }
func F64(v float64) []int { return LE64(math.Float64bits(v)) }

// Clamp keeps integers handed to TLC inside its 32-bit range.
func Clamp(v int64) int {
	if v > math.MaxInt32 {
		return math.MaxInt32
	}
	if v < math.MinInt32 {
		return math.MinInt32
	}
	return int(v)
}

// Ev is the uniform event record of the codec traces.  Every field is always present
// (TLC raises an error on a missing record field), slices are never null.
type Ev struct {
	C     string  `json:"c"`
	Op    string  `json:"op"`
	K     string  `json:"k"`
	Mode  int     `json:"mode"`
	Fn    int     `json:"fn"`
	Wt    int     `json:"wt"`
	I1    int     `json:"i1"`
	I2    int     `json:"i2"`
	A     []int   `json:"a"`
	As    [][]int `json:"as"`
	Buf   []int   `json:"buf"`
	P     int     `json:"p"`
	St    string  `json:"st"`
	Val   []int   `json:"val"`
	Vals  [][]int `json:"vals"`
	Off   int     `json:"off"`
	Out   []int   `json:"out"`
	Cap   int     `json:"cap"`
	H1    int     `json:"h1"`
	H2    int     `json:"h2"`
	H3    int     `json:"h3"`
	Alloc int     `json:"alloc"`
	Cnt   int     `json:"cnt"`
	Sb    []int   `json:"sb"`
	Same  int     `json:"same"`
	Hx    int     `json:"hx"`
	X     []int   `json:"x"`
	Xs    [][]int `json:"xs"`
	Ref   []int   `json:"ref"`
	Note  string  `json:"note"`
}

func (e *Ev) norm() {
	if e.A == nil {
		e.A = []int{}
	}
	if e.As == nil {
		e.As = [][]int{}
	}
	if e.Buf == nil {
		e.Buf = []int{}
	}
	if e.Val == nil {
		e.Val = []int{}
	}
	if e.Vals == nil {
		e.Vals = [][]int{}
	}
	if e.Out == nil {
		e.Out = []int{}
	}
	if e.Sb == nil {
		e.Sb = []int{}
	}
	if e.X == nil {
		e.X = []int{}
	}
	if e.Xs == nil {
		e.Xs = [][]int{}
	}
	if e.Ref == nil {
		e.Ref = []int{}
	}
	for i := range e.As {
		if e.As[i] == nil {
			e.As[i] = []int{}
		}
	}
	for i := range e.Vals {
		if e.Vals[i] == nil {
			e.Vals[i] = []int{}
		}
	}
	for i := range e.Xs {
		if e.Xs[i] == nil {
			e.Xs[i] = []int{}
		}
	}
}

// Writer appends events as ndjson, optionally spreading them over several shard files
// (events between two "new" events stay together).
type Writer struct {
	files []*os.File
	bufs  []*bufio.Writer
	cur   int
	N     int
	Per   []int
}

// NewWriter creates shards files named prefix + "." + i + ".ndjson".
func NewWriter(paths []string) (*Writer, error) {
	w := &Writer{Per: make([]int, len(paths))}
	for _, p := range paths {
		f, err := os.Create(p)
		if err != nil {
			return nil, err
		}
		w.files = append(w.files, f)
		w.bufs = append(w.bufs, bufio.NewWriterSize(f, 1<<20))
	}
	return w, nil
}

// NextGroup moves to the next shard; call it only at a point where the model state is reset.
func (w *Writer) NextGroup() { w.cur = (w.cur + 1) % len(w.files) }

// Emit writes one event (any JSON-serialisable value with a norm-like contract) to the current shard.
func (w *Writer) Emit(e *Ev) {
	e.norm()
	b, err := json.Marshal(e)
	if err != nil {
		panic(err)
	}
	w.bufs[w.cur].Write(b)
	w.bufs[w.cur].WriteByte('\n')
	w.N++
	w.Per[w.cur]++
}

// Norm makes every slice of e non-nil (the shape TLC expects).
func (e *Ev) Norm() { e.norm() }

// EmitAny writes an arbitrary record (used by the non-codec harnesses).
func (w *Writer) EmitAny(v any) {
	b, err := json.Marshal(v)
	if err != nil {
		panic(err)
	}
	w.bufs[w.cur].Write(b)
	w.bufs[w.cur].WriteByte('\n')
	w.N++
	w.Per[w.cur]++
}

func (w *Writer) Close() {
	for i := range w.files {
		w.bufs[i].Flush()
		w.files[i].Close()
	}
}

var ms runtime.MemStats

// TotalAlloc returns the cumulative bytes allocated (exact: ReadMemStats flushes the per-P caches).
func TotalAlloc() uint64 {
	runtime.ReadMemStats(&ms)
	return ms.TotalAlloc
}
