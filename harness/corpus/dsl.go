// Package corpus defines the schema corpus of the generated-code checks (C04-C10, C12, C16-C18) as
// data and turns it into FileDescriptorProtos (there is no protoc in the sandbox: descriptors are
// built programmatically and handed to the protoc plug-ins directly).
package corpus

import (
	"fmt"
	"strings"

	"google.golang.org/protobuf/proto"
	"google.golang.org/protobuf/types/descriptorpb"
)

// F is a field.  Card: "opt" (proto2 optional), "req", "rep", "imp" (proto3 implicit presence),
// "p3opt" (proto3 optional).  Kind: a protobuf scalar kind, "message", "enum" or "map".
type F struct {
	Name    string
	Num     int32
	Kind    string
	Card    string
	Packed  int    // 0 = default, 1 = [packed=true], 2 = [packed=false]
	Type    string // message / enum type (relative to the file's package, or fully qualified with leading dot)
	Oneof   string
	MapKey  string
	MapVal  string
	MapType string // type of the map value when MapVal is message/enum
	Default string // proto2 [default = ...], in descriptor notation
}

// X is an extension field declared in a message scope.
type X struct {
	Extendee string
	F        F
}

type E struct {
	Name   string
	Values []EV
}
type EV struct {
	Name string
	Num  int32
}

type M struct {
	Name      string
	Fields    []F
	Nested    []M
	Enums     []E
	ExtRanges [][2]int32
	Exts      []X
}

type File struct {
	Base   string // file base name, also the Go package name
	Pkg    string // protobuf package
	Syntax string // "proto2" | "proto3"
	Deps   []string
	Msgs   []M
	Enums  []E
	Exts   []X // file-scope extensions
	// Flavours this file can be generated for ("gogo", "gv2"); empty = both
	Only []string
	// Tags describing the features in this file (used by C16's classification)
	Features []string
	// Generator parameters this file needs in every option set (e.g. specialname=Size)
	Params string
}

var kindType = map[string]descriptorpb.FieldDescriptorProto_Type{
	"double": descriptorpb.FieldDescriptorProto_TYPE_DOUBLE, "float": descriptorpb.FieldDescriptorProto_TYPE_FLOAT,
	"int64": descriptorpb.FieldDescriptorProto_TYPE_INT64, "uint64": descriptorpb.FieldDescriptorProto_TYPE_UINT64,
	"int32": descriptorpb.FieldDescriptorProto_TYPE_INT32, "fixed64": descriptorpb.FieldDescriptorProto_TYPE_FIXED64,
	"fixed32": descriptorpb.FieldDescriptorProto_TYPE_FIXED32, "bool": descriptorpb.FieldDescriptorProto_TYPE_BOOL,
	"string": descriptorpb.FieldDescriptorProto_TYPE_STRING, "message": descriptorpb.FieldDescriptorProto_TYPE_MESSAGE,
	"bytes": descriptorpb.FieldDescriptorProto_TYPE_BYTES, "uint32": descriptorpb.FieldDescriptorProto_TYPE_UINT32,
	"enum": descriptorpb.FieldDescriptorProto_TYPE_ENUM, "sfixed32": descriptorpb.FieldDescriptorProto_TYPE_SFIXED32,
	"sfixed64": descriptorpb.FieldDescriptorProto_TYPE_SFIXED64, "sint32": descriptorpb.FieldDescriptorProto_TYPE_SINT32,
	"sint64": descriptorpb.FieldDescriptorProto_TYPE_SINT64,
}

func camel(s string) string {
	parts := strings.Split(s, "_")
	for i, p := range parts {
		if p != "" {
			parts[i] = strings.ToUpper(p[:1]) + p[1:]
		}
	}
	return strings.Join(parts, "")
}

// LocalDepPkg is the protobuf package of the file-local dependency of f (feature "local-import"): an imported .proto file that is
// not itself being generated and whose Go package NAME (apiv1) differs from the last element of its import path (.../api/v1).
func (f *File) LocalDepPkg() string { return f.Pkg + ".api.v1" }

func (f *File) qualify(t string) string {
	if strings.HasPrefix(t, "@dep.") {
		return "." + f.LocalDepPkg() + "." + strings.TrimPrefix(t, "@dep.")
	}
	if strings.HasPrefix(t, ".") {
		return t
	}
	return "." + f.Pkg + "." + t
}

func (f *File) field(scope string, fd F, msg *descriptorpb.DescriptorProto, oneofs map[string]int32) *descriptorpb.FieldDescriptorProto {
	out := &descriptorpb.FieldDescriptorProto{
		Name:     proto.String(fd.Name),
		Number:   proto.Int32(fd.Num),
		JsonName: proto.String(lowerCamel(fd.Name)),
	}
	switch fd.Card {
	case "req":
		out.Label = descriptorpb.FieldDescriptorProto_LABEL_REQUIRED.Enum()
	case "rep":
		out.Label = descriptorpb.FieldDescriptorProto_LABEL_REPEATED.Enum()
	default:
		out.Label = descriptorpb.FieldDescriptorProto_LABEL_OPTIONAL.Enum()
	}
	if fd.Kind == "map" {
		// synthesize the entry message
		entry := camel(fd.Name) + "Entry"
		em := &descriptorpb.DescriptorProto{
			Name:    proto.String(entry),
			Options: &descriptorpb.MessageOptions{MapEntry: proto.Bool(true)},
		}
		k := F{Name: "key", Num: 1, Kind: fd.MapKey, Card: "opt"}
		v := F{Name: "value", Num: 2, Kind: fd.MapVal, Card: "opt", Type: fd.MapType}
		if f.Syntax == "proto3" {
			k.Card, v.Card = "imp", "imp"
		}
		em.Field = append(em.Field, f.field(scope+"."+entry, k, nil, nil), f.field(scope+"."+entry, v, nil, nil))
		msg.NestedType = append(msg.NestedType, em)
		out.Label = descriptorpb.FieldDescriptorProto_LABEL_REPEATED.Enum()
		out.Type = descriptorpb.FieldDescriptorProto_TYPE_MESSAGE.Enum()
		out.TypeName = proto.String(scope + "." + entry)
		return out
	}
	t, ok := kindType[fd.Kind]
	if !ok {
		panic("corpus: unknown kind " + fd.Kind)
	}
	out.Type = t.Enum()
	if fd.Kind == "message" || fd.Kind == "enum" {
		out.TypeName = proto.String(f.qualify(fd.Type))
	}
	if fd.Default != "" {
		out.DefaultValue = proto.String(fd.Default)
	}
	if fd.Packed == 1 {
		out.Options = &descriptorpb.FieldOptions{Packed: proto.Bool(true)}
	} else if fd.Packed == 2 {
		out.Options = &descriptorpb.FieldOptions{Packed: proto.Bool(false)}
	}
	if fd.Oneof != "" && msg != nil {
		idx, ok := oneofs[fd.Oneof]
		if !ok {
			idx = int32(len(msg.OneofDecl))
			oneofs[fd.Oneof] = idx
			msg.OneofDecl = append(msg.OneofDecl, &descriptorpb.OneofDescriptorProto{Name: proto.String(fd.Oneof)})
		}
		out.OneofIndex = proto.Int32(idx)
	}
	return out
}

func lowerCamel(s string) string {
	c := camel(s)
	if c == "" {
		return c
	}
	return strings.ToLower(c[:1]) + c[1:]
}

func (f *File) message(scope string, m M) *descriptorpb.DescriptorProto {
	full := scope + "." + m.Name
	out := &descriptorpb.DescriptorProto{Name: proto.String(m.Name)}
	oneofs := map[string]int32{}
	var synthetic []*descriptorpb.FieldDescriptorProto
	for _, fd := range m.Fields {
		fp := f.field(full, fd, out, oneofs)
		out.Field = append(out.Field, fp)
		if fd.Card == "p3opt" {
			fp.Proto3Optional = proto.Bool(true)
			synthetic = append(synthetic, fp)
		}
	}
	// synthetic oneofs come after the real ones
	for _, fp := range synthetic {
		fp.OneofIndex = proto.Int32(int32(len(out.OneofDecl)))
		out.OneofDecl = append(out.OneofDecl, &descriptorpb.OneofDescriptorProto{Name: proto.String("_" + fp.GetName())})
	}
	for _, n := range m.Nested {
		out.NestedType = append(out.NestedType, f.message(full, n))
	}
	for _, e := range m.Enums {
		out.EnumType = append(out.EnumType, enum(e))
	}
	for _, r := range m.ExtRanges {
		out.ExtensionRange = append(out.ExtensionRange, &descriptorpb.DescriptorProto_ExtensionRange{Start: proto.Int32(r[0]), End: proto.Int32(r[1])})
	}
	for _, x := range m.Exts {
		fp := f.field(full, x.F, nil, nil)
		fp.Extendee = proto.String(f.qualify(x.Extendee))
		out.Extension = append(out.Extension, fp)
	}
	return out
}

func enum(e E) *descriptorpb.EnumDescriptorProto {
	out := &descriptorpb.EnumDescriptorProto{Name: proto.String(e.Name)}
	for _, v := range e.Values {
		out.Value = append(out.Value, &descriptorpb.EnumValueDescriptorProto{Name: proto.String(v.Name), Number: proto.Int32(v.Num)})
	}
	return out
}

// Descriptor renders the file for one flavour; goPkgPrefix is the import path prefix of the generated packages.
func (f *File) Descriptor(protoPath, goImportPath string) *descriptorpb.FileDescriptorProto {
	out := &descriptorpb.FileDescriptorProto{
		Name:       proto.String(protoPath),
		Package:    proto.String(f.Pkg),
		Dependency: f.Deps,
		Options:    &descriptorpb.FileOptions{GoPackage: proto.String(fmt.Sprintf("%s;%s", goImportPath, f.Base))},
	}
	if f.Syntax == "proto3" {
		out.Syntax = proto.String("proto3")
	} else {
		out.Syntax = proto.String("proto2")
	}
	for _, m := range f.Msgs {
		out.MessageType = append(out.MessageType, f.message("."+f.Pkg, m))
	}
	for _, e := range f.Enums {
		out.EnumType = append(out.EnumType, enum(e))
	}
	for _, x := range f.Exts {
		fp := f.field("."+f.Pkg, x.F, nil, nil)
		fp.Extendee = proto.String(f.qualify(x.Extendee))
		out.Extension = append(out.Extension, fp)
	}
	return out
}
