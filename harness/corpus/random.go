package corpus

import (
	"fmt"
	"math/rand"
)

// RandomFiles draws n schema files from the feature space with the given seed: random message trees
// (nested messages, repeated short names across parents), random field kinds and cardinalities,
// required fields at random places (proto2), maps, oneofs and recursion.
func RandomFiles(seed int64, n int) []File {
	r := rand.New(rand.NewSource(seed))
	var out []File
	for i := 0; i < n; i++ {
		syntax := "proto3"
		if i%2 == 0 {
			syntax = "proto2"
		}
		base := fmt.Sprintf("r%d", i)
		f := File{Base: base, Pkg: "verif." + base, Syntax: syntax, Features: []string{syntax, "random"}}
		f.Enums = []E{{Name: "Color", Values: []EV{{"C_ZERO", 0}, {"C_ONE", 1}, {"C_NEG", -1}}}}
		shorts := []string{"Item", "Inner", "Info", "Item", "Data"}
		nTop := 2 + r.Intn(3)
		var names []string // full (relative) names of all messages, for type references
		var build func(prefix string, depth int, name string) M
		build = func(prefix string, depth int, name string) M {
			full := name
			if prefix != "" {
				full = prefix + "." + name
			}
			m := M{Name: name}
			if depth < 2 {
				for k, kk := 0, r.Intn(3); k < kk; k++ {
					sn := shorts[r.Intn(len(shorts))]
					dup := false
					for _, x := range m.Nested {
						if x.Name == sn {
							dup = true
						}
					}
					if !dup {
						m.Nested = append(m.Nested, build(full, depth+1, sn))
					}
				}
			}
			names = append(names, full)
			return m
		}
		for t := 0; t < nTop; t++ {
			f.Msgs = append(f.Msgs, build("", 0, fmt.Sprintf("Top%d", t)))
		}
		// fields (after all names are known so that references can point anywhere, including recursion)
		var fill func(m *M, full string)
		fill = func(m *M, full string) {
			nf := 1 + r.Intn(6)
			num := int32(1)
			// a oneof is a block of consecutively declared members
			oneofAt, oneofLen := -1, 0
			if r.Intn(3) == 0 && nf >= 3 {
				oneofAt, oneofLen = 1+r.Intn(nf-2), 2
			}
			for k := 0; k < nf; k++ {
				fd := F{Name: fmt.Sprintf("f%d", k), Num: num}
				num += int32(1 + r.Intn(3))
				if r.Intn(12) == 0 {
					num += 2000
				}
				switch r.Intn(10) {
				case 0, 1:
					fd.Kind, fd.Type = "message", names[r.Intn(len(names))]
				case 2:
					fd.Kind, fd.Type = "enum", "Color"
				case 3:
					fd.Kind = "map"
					fd.MapKey = []string{"string", "int32", "uint64", "sint32", "fixed32", "bool", "sfixed64"}[r.Intn(7)]
					if r.Intn(3) == 0 {
						fd.MapVal, fd.MapType = "message", names[r.Intn(len(names))]
					} else {
						fd.MapVal = Kinds15[r.Intn(len(Kinds15))]
					}
				default:
					fd.Kind = Kinds15[r.Intn(len(Kinds15))]
				}
				inOneof := k >= oneofAt && k < oneofAt+oneofLen
				if inOneof && fd.Kind == "map" {
					fd = F{Name: fd.Name, Num: fd.Num, Kind: "string"}
				}
				if inOneof {
					fd.Oneof = "choice"
					fd.Card = "opt"
					if syntax == "proto3" {
						fd.Card = "imp"
					}
				} else if fd.Kind != "map" {
					switch c := r.Intn(10); {
					case c < 3:
						fd.Card = "rep"
						if fd.Kind != "string" && fd.Kind != "bytes" && fd.Kind != "message" {
							fd.Packed = r.Intn(3)
						}
					case c < 5 && syntax == "proto2":
						fd.Card = "req"
					default:
						fd.Card = "opt"
						if syntax == "proto3" {
							fd.Card = "imp"
						}
					}
				}
				// a required message field that (transitively) requires itself cannot be populated: keep recursion optional
				if fd.Card == "req" && fd.Kind == "message" {
					fd.Card = "opt"
				}
				m.Fields = append(m.Fields, fd)
			}
			for i := range m.Nested {
				fill(&m.Nested[i], full+"."+m.Nested[i].Name)
			}
		}
		for i := range f.Msgs {
			fill(&f.Msgs[i], f.Msgs[i].Name)
		}
		out = append(out, f)
	}
	return out
}
