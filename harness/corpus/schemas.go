package corpus

import "fmt"

// Kinds15 are the fifteen scalar kinds in a fixed order (field numbers 1..15 in the matrix messages).
var Kinds15 = []string{"double", "float", "int32", "int64", "uint32", "uint64", "sint32", "sint64",
	"fixed32", "fixed64", "sfixed32", "sfixed64", "bool", "string", "bytes"}

func packable(k string) bool { return k != "string" && k != "bytes" }

func allKinds(prefix, card string, packed int, enumT, msgT string) []F {
	var fs []F
	for i, k := range Kinds15 {
		f := F{Name: prefix + "_" + k, Num: int32(i + 1), Kind: k, Card: card}
		if card == "rep" && packable(k) {
			f.Packed = packed
		}
		fs = append(fs, f)
	}
	fe := F{Name: prefix + "_enum", Num: 16, Kind: "enum", Card: card, Type: enumT}
	if card == "rep" {
		fe.Packed = packed
	}
	fs = append(fs, fe, F{Name: prefix + "_msg", Num: 17, Kind: "message", Card: card, Type: msgT})
	return fs
}

func oneofAll(card, enumT, msgT string) []F {
	fs := allKinds("u", card, 0, enumT, msgT)
	for i := range fs {
		fs[i].Oneof = "u"
	}
	return fs
}

var mapKeyKinds = []string{"int32", "int64", "uint32", "uint64", "sint32", "sint64", "fixed32", "fixed64", "sfixed32", "sfixed64"}

func mapsAll(enumT, msgT string) []F {
	var fs []F
	for i, k := range Kinds15 {
		fs = append(fs, F{Name: "s_" + k, Num: int32(i + 1), Kind: "map", MapKey: "string", MapVal: k})
	}
	fs = append(fs, F{Name: "s_enum", Num: 16, Kind: "map", MapKey: "string", MapVal: "enum", MapType: enumT},
		F{Name: "s_msg", Num: 17, Kind: "map", MapKey: "string", MapVal: "message", MapType: msgT})
	for i, k := range mapKeyKinds {
		fs = append(fs, F{Name: "k_" + k, Num: int32(21 + i), Kind: "map", MapKey: k, MapVal: "int32"})
	}
	fs = append(fs, F{Name: "k_msg", Num: 31, Kind: "map", MapKey: "int32", MapVal: "message", MapType: msgT})
	return fs
}

// Files returns the feature-matrix corpus.
func Files() []File {
	var files []File

	// ---- proto3 -------------------------------------------------------------------------------
	p3 := File{Base: "p3", Pkg: "verif.p3", Syntax: "proto3", Features: []string{"proto3", "scalars", "repeated", "packed", "oneof", "maps", "recursive", "enum", "nested"}}
	p3.Enums = []E{{Name: "Color", Values: []EV{{"ZERO", 0}, {"ONE", 1}, {"NEG", -1}, {"BIG", 2147483647}}}}
	p3.Msgs = []M{
		{Name: "Leaf", Fields: []F{{Name: "a", Num: 1, Kind: "int32", Card: "imp"}, {Name: "s", Num: 2, Kind: "string", Card: "imp"}, {Name: "r", Num: 3, Kind: "int32", Card: "rep"}}},
		{Name: "Scalars", Fields: append(allKinds("f", "imp", 0, "Color", "Leaf"), F{Name: "f_hi", Num: 268435456, Kind: "int64", Card: "imp"})},
		{Name: "Rep", Fields: allKinds("r", "rep", 0, "Color", "Leaf")},
		{Name: "RepUnpacked", Fields: allKinds("r", "rep", 2, "Color", "Leaf")},
		{Name: "Oneof", Fields: append(oneofAll("imp", "Color", "Leaf"), F{Name: "x", Num: 20, Kind: "int32", Card: "imp"})},
		{Name: "Maps", Fields: mapsAll("Color", "Leaf")},
		{Name: "Tree", Fields: []F{{Name: "left", Num: 1, Kind: "message", Card: "imp", Type: "Tree"}, {Name: "right", Num: 2, Kind: "message", Card: "imp", Type: "Tree"},
			{Name: "kids", Num: 3, Kind: "message", Card: "rep", Type: "Tree"}, {Name: "v", Num: 4, Kind: "int32", Card: "imp"},
			{Name: "named", Num: 5, Kind: "map", MapKey: "string", MapVal: "message", MapType: "Tree"}}},
		{Name: "Outer1", Fields: []F{{Name: "i", Num: 1, Kind: "message", Card: "imp", Type: "Outer1.Inner"}},
			Nested: []M{{Name: "Inner", Fields: []F{{Name: "a", Num: 1, Kind: "int32", Card: "imp"}}}}},
		{Name: "Outer2", Fields: []F{{Name: "i", Num: 1, Kind: "message", Card: "imp", Type: "Outer2.Inner"}},
			Nested: []M{{Name: "Inner", Fields: []F{{Name: "b", Num: 1, Kind: "string", Card: "imp"}}}}},
	}
	files = append(files, p3)

	p3opt := File{Base: "p3opt", Pkg: "verif.p3opt", Syntax: "proto3", Only: []string{"gv2"}, Features: []string{"proto3", "proto3optional"}}
	p3opt.Enums = []E{{Name: "Color", Values: []EV{{"ZERO", 0}, {"ONE", 1}, {"NEG", -1}}}}
	p3opt.Msgs = []M{
		{Name: "Leaf", Fields: []F{{Name: "a", Num: 1, Kind: "int32", Card: "imp"}}},
		{Name: "Opt", Fields: allKinds("o", "p3opt", 0, "Color", "Leaf")},
	}
	files = append(files, p3opt)

	// ---- proto2 -------------------------------------------------------------------------------
	p2 := File{Base: "p2", Pkg: "verif.p2", Syntax: "proto2", Features: []string{"proto2", "scalars", "repeated", "packed", "oneof", "maps", "enum", "nested"}}
	p2.Enums = []E{{Name: "Color", Values: []EV{{"C_ZERO", 0}, {"C_ONE", 1}, {"C_NEG", -1}}}}
	p2.Msgs = []M{
		{Name: "Leaf", Fields: []F{{Name: "a", Num: 1, Kind: "int32", Card: "opt"}, {Name: "s", Num: 2, Kind: "string", Card: "opt"}, {Name: "r", Num: 3, Kind: "int32", Card: "rep"}}},
		{Name: "Opt", Fields: allKinds("o", "opt", 0, "Color", "Leaf")},
		{Name: "Rep", Fields: allKinds("r", "rep", 0, "Color", "Leaf")},
		{Name: "RepPacked", Fields: allKinds("r", "rep", 1, "Color", "Leaf")},
		{Name: "Oneof", Fields: append(oneofAll("opt", "Color", "Leaf"), F{Name: "x", Num: 20, Kind: "int32", Card: "opt"})},
		{Name: "Maps", Fields: mapsAll("Color", "Leaf")},
	}
	files = append(files, p2)

	// required fields at every nesting position
	req := File{Base: "p2req", Pkg: "verif.p2req", Syntax: "proto2", Features: []string{"proto2", "required"}}
	req.Enums = []E{{Name: "Color", Values: []EV{{"C_ZERO", 0}, {"C_ONE", 1}}}}
	req.Msgs = []M{
		{Name: "Leaf", Fields: []F{{Name: "a", Num: 1, Kind: "int32", Card: "opt"}}},
		{Name: "Req1", Fields: []F{{Name: "a", Num: 1, Kind: "int32", Card: "req"}, {Name: "b", Num: 2, Kind: "int32", Card: "opt"}}},
		{Name: "ReqAll", Fields: []F{
			{Name: "q_int32", Num: 1, Kind: "int32", Card: "req"}, {Name: "q_string", Num: 2, Kind: "string", Card: "req"},
			{Name: "q_bytes", Num: 3, Kind: "bytes", Card: "req"}, {Name: "q_msg", Num: 4, Kind: "message", Card: "req", Type: "Leaf"},
			{Name: "q_enum", Num: 5, Kind: "enum", Card: "req", Type: "Color"}, {Name: "q_bool", Num: 6, Kind: "bool", Card: "req"},
			{Name: "q_double", Num: 7, Kind: "double", Card: "req"}, {Name: "q_sfixed32", Num: 8, Kind: "sfixed32", Card: "req"},
			{Name: "q_sint64", Num: 9, Kind: "sint64", Card: "req"}, {Name: "o_int32", Num: 10, Kind: "int32", Card: "opt"}}},
		{Name: "Holder", Fields: []F{
			{Name: "one", Num: 1, Kind: "message", Card: "opt", Type: "Req1"}, {Name: "many", Num: 2, Kind: "message", Card: "rep", Type: "Req1"},
			{Name: "byname", Num: 3, Kind: "map", MapKey: "string", MapVal: "message", MapType: "Req1"},
			{Name: "alt", Num: 4, Kind: "message", Card: "opt", Type: "Req1", Oneof: "u"}, {Name: "n", Num: 5, Kind: "int32", Card: "opt", Oneof: "u"},
			{Name: "x", Num: 6, Kind: "int32", Card: "opt"}}},
		{Name: "Must", Fields: []F{{Name: "must", Num: 1, Kind: "message", Card: "req", Type: "Req1"}, {Name: "deep", Num: 2, Kind: "message", Card: "opt", Type: "Holder"}}},
	}
	files = append(files, req)

	// extensions declared in a message scope
	ext := File{Base: "p2ext", Pkg: "verif.p2ext", Syntax: "proto2", Features: []string{"proto2", "extensions"}}
	ext.Enums = []E{{Name: "Color", Values: []EV{{"C_ZERO", 0}, {"C_ONE", 1}, {"C_NEG", -1}}}}
	var xs []X
	for i, k := range []string{"int32", "int64", "uint64", "sint32", "sint64", "fixed32", "fixed64", "bool", "string", "bytes", "double", "float", "uint32", "sfixed32", "sfixed64"} {
		xs = append(xs, X{Extendee: "Base", F: F{Name: "e_" + k, Num: int32(100 + i), Kind: k, Card: "opt"}})
	}
	xs = append(xs, X{Extendee: "Base", F: F{Name: "e_msg", Num: 120, Kind: "message", Card: "opt", Type: "Leaf"}},
		X{Extendee: "Base", F: F{Name: "e_enum", Num: 121, Kind: "enum", Card: "opt", Type: "Color"}})
	ext.Msgs = []M{
		{Name: "Leaf", Fields: []F{{Name: "a", Num: 1, Kind: "int32", Card: "opt"}, {Name: "s", Num: 2, Kind: "string", Card: "opt"}}},
		{Name: "Base", Fields: []F{{Name: "id", Num: 1, Kind: "int32", Card: "opt"}, {Name: "name", Num: 2, Kind: "string", Card: "opt"}}, ExtRanges: [][2]int32{{100, 200}}},
		{Name: "Decl", Fields: []F{{Name: "d", Num: 1, Kind: "int32", Card: "opt"}}, Exts: xs},
		// the same extendee extended from a second message scope and from the file scope
		{Name: "Decl2", Fields: []F{{Name: "d", Num: 1, Kind: "int32", Card: "opt"}}, Exts: []X{
			{Extendee: "Base", F: F{Name: "e2_int32", Num: 150, Kind: "int32", Card: "opt"}},
			{Extendee: "Base", F: F{Name: "e2_string", Num: 151, Kind: "string", Card: "opt"}}}},
	}
	// ... and from the scope of a message nested in a message that declares no extension itself
	ext.Msgs = append(ext.Msgs, M{Name: "Plain", Fields: []F{{Name: "p", Num: 1, Kind: "int32", Card: "opt"}},
		Nested: []M{{Name: "Deep", Fields: []F{{Name: "q", Num: 1, Kind: "int32", Card: "opt"}},
			Exts: []X{{Extendee: "Base", F: F{Name: "e3_int32", Num: 170, Kind: "int32", Card: "opt"}}}}}})
	// ... with explicit defaults (an unset extension reads as its default; it is not present for that)
	ext.Msgs = append(ext.Msgs, M{Name: "Decl3", Fields: []F{{Name: "d", Num: 1, Kind: "int32", Card: "opt"}}, Exts: []X{
		{Extendee: "Base", F: F{Name: "e4_int32", Num: 180, Kind: "int32", Card: "opt", Default: "42"}},
		{Extendee: "Base", F: F{Name: "e4_string", Num: 181, Kind: "string", Card: "opt", Default: "dflt"}}}})
	// ... and inside a nested message that FOLLOWS a map field's (synthetic) entry message in its parent's nested-type list
	ext.Msgs = append(ext.Msgs, M{Name: "WithMap", Fields: []F{{Name: "counts", Num: 1, Kind: "map", MapKey: "string", MapVal: "int32"}},
		Nested: []M{{Name: "Inner", Fields: []F{{Name: "q", Num: 1, Kind: "int32", Card: "opt"}},
			Exts: []X{{Extendee: "Base", F: F{Name: "e5_string", Num: 182, Kind: "string", Card: "opt"}}}}}})
	ext.Exts = []X{{Extendee: "Base", F: F{Name: "f_int64", Num: 160, Kind: "int64", Card: "opt"}},
		{Extendee: "Base", F: F{Name: "f_msg", Num: 161, Kind: "message", Card: "opt", Type: "Leaf"}}}
	files = append(files, ext)

	// well-known type imports (google flavours)
	wkt := File{Base: "p3wkt", Pkg: "verif.p3wkt", Syntax: "proto3", Only: []string{"gv2"}, Features: []string{"proto3", "wkt-import"},
		Deps: []string{"google/protobuf/timestamp.proto", "google/protobuf/duration.proto", "google/protobuf/struct.proto", "google/protobuf/wrappers.proto"}}
	wkt.Msgs = []M{{Name: "Event", Fields: []F{
		{Name: "id", Num: 1, Kind: "string", Card: "imp"},
		{Name: "ts", Num: 2, Kind: "message", Card: "imp", Type: ".google.protobuf.Timestamp"},
		{Name: "ttl", Num: 3, Kind: "message", Card: "imp", Type: ".google.protobuf.Duration"},
		{Name: "attrs", Num: 4, Kind: "message", Card: "imp", Type: ".google.protobuf.Struct"},
		{Name: "stamps", Num: 5, Kind: "message", Card: "rep", Type: ".google.protobuf.Timestamp"},
		{Name: "bymap", Num: 6, Kind: "map", MapKey: "string", MapVal: "message", MapType: ".google.protobuf.Timestamp"},
		{Name: "w", Num: 7, Kind: "message", Card: "imp", Type: ".google.protobuf.Int64Value"},
	}}}
	files = append(files, wkt)

	// special field names
	special := File{Base: "p3names", Pkg: "verif.p3names", Syntax: "proto3", Features: []string{"proto3", "specialname"}, Only: []string{"gogo"},
		Params: "specialname=Size,specialname=Reset,specialname=String"}
	special.Msgs = []M{{Name: "Names", Fields: []F{
		{Name: "size", Num: 1, Kind: "int32", Card: "imp"}, {Name: "reset", Num: 2, Kind: "string", Card: "imp"},
		{Name: "string", Num: 3, Kind: "string", Card: "imp"}, {Name: "other", Num: 4, Kind: "bytes", Card: "imp"},
	}}}
	files = append(files, special)

	// ---- atomic features (one per file; C16 isolates compile failures with these) ---------------
	atom := func(base, syntax string, feats []string, only []string, msgs []M, enums []E, exts []X) {
		files = append(files, File{Base: base, Pkg: "verif." + base, Syntax: syntax, Features: append([]string{syntax, "atomic"}, feats...), Only: only, Msgs: msgs, Enums: enums, Exts: exts})
	}
	card3 := "imp"
	atom("a3mapbool", "proto3", []string{"map-bool-key"}, nil, []M{{Name: "MB", Fields: []F{{Name: "m", Num: 1, Kind: "map", MapKey: "bool", MapVal: "string"}}}}, nil, nil)
	atom("a3mapboolval", "proto3", []string{"map-bool-value"}, nil, []M{{Name: "MV", Fields: []F{{Name: "m", Num: 1, Kind: "map", MapKey: "string", MapVal: "bool"}}}}, nil, nil)
	atom("a3samename", "proto3", []string{"same-short-name-nested"}, nil, []M{
		{Name: "A", Fields: []F{{Name: "i", Num: 1, Kind: "message", Card: card3, Type: "A.Inner"}}, Nested: []M{{Name: "Inner", Fields: []F{{Name: "a", Num: 1, Kind: "int32", Card: card3}}}}},
		{Name: "B", Fields: []F{{Name: "i", Num: 1, Kind: "message", Card: card3, Type: "B.Inner"}}, Nested: []M{{Name: "Inner", Fields: []F{{Name: "b", Num: 1, Kind: "string", Card: card3}}}}},
	}, nil, nil)
	atom("a3casename", "proto3", []string{"names-differ-in-case"}, nil, []M{
		{Name: "Item", Fields: []F{{Name: "a", Num: 1, Kind: "int32", Card: card3}}},
		{Name: "ITEM", Fields: []F{{Name: "b", Num: 1, Kind: "string", Card: card3}}},
	}, nil, nil)
	atom("a2extuint32", "proto2", []string{"extension-uint32"}, nil, []M{
		{Name: "Base", Fields: []F{{Name: "id", Num: 1, Kind: "int32", Card: "opt"}}, ExtRanges: [][2]int32{{100, 200}}},
		{Name: "Decl", Exts: []X{{Extendee: "Base", F: F{Name: "e_uint32", Num: 100, Kind: "uint32", Card: "opt"}}}},
	}, nil, nil)
	atom("a2extsfixed", "proto2", []string{"extension-sfixed"}, nil, []M{
		{Name: "Base", Fields: []F{{Name: "id", Num: 1, Kind: "int32", Card: "opt"}}, ExtRanges: [][2]int32{{100, 200}}},
		{Name: "Decl", Exts: []X{{Extendee: "Base", F: F{Name: "e_sfixed32", Num: 100, Kind: "sfixed32", Card: "opt"}},
			{Extendee: "Base", F: F{Name: "e_sfixed64", Num: 101, Kind: "sfixed64", Card: "opt"}}}},
	}, nil, nil)
	atom("a2extfile", "proto2", []string{"extension-file-scope"}, nil, []M{
		{Name: "Base", Fields: []F{{Name: "id", Num: 1, Kind: "int32", Card: "opt"}}, ExtRanges: [][2]int32{{100, 200}}},
	}, nil, []X{{Extendee: "Base", F: F{Name: "f_int32", Num: 100, Kind: "int32", Card: "opt"}}})
	atom("a2req2", "proto2", []string{"required", "two-messages"}, nil, []M{
		{Name: "WithReq", Fields: []F{{Name: "a", Num: 1, Kind: "int32", Card: "req"}}},
		{Name: "NoReq", Fields: []F{{Name: "b", Num: 1, Kind: "int32", Card: "opt"}}},
	}, nil, nil)
	atom("a2reqnested", "proto2", []string{"required", "required-only-in-nested"}, nil, []M{
		{Name: "Outer", Fields: []F{{Name: "x", Num: 1, Kind: "int32", Card: "opt"}, {Name: "i", Num: 2, Kind: "message", Card: "opt", Type: "Outer.Inner"},
			{Name: "many", Num: 3, Kind: "message", Card: "rep", Type: "Outer.Inner"}},
			Nested: []M{{Name: "Inner", Fields: []F{{Name: "a", Num: 1, Kind: "int32", Card: "req"}, {Name: "b", Num: 2, Kind: "string", Card: "opt"}}}}},
	}, nil, nil)
	atom("a2reqsamename", "proto2", []string{"required", "same-short-name-nested"}, nil, []M{
		{Name: "Order", Fields: []F{{Name: "items", Num: 1, Kind: "message", Card: "rep", Type: "Order.Item"}, {Name: "first", Num: 2, Kind: "message", Card: "opt", Type: "Order.Item"}},
			Nested: []M{{Name: "Item", Fields: []F{{Name: "id", Num: 1, Kind: "int32", Card: "req"}, {Name: "note", Num: 2, Kind: "string", Card: "opt"}}}}},
		{Name: "Invoice", Fields: []F{{Name: "it", Num: 1, Kind: "message", Card: "opt", Type: "Invoice.Item"}},
			Nested: []M{{Name: "Item", Fields: []F{{Name: "s", Num: 1, Kind: "string", Card: "opt"}}}}},
		{Name: "Other", Fields: []F{{Name: "must", Num: 1, Kind: "bool", Card: "req"}}},
	}, nil, nil)
	atom("a2reqsamename2", "proto2", []string{"required", "same-short-name-nested"}, nil, []M{
		{Name: "Invoice", Fields: []F{{Name: "it", Num: 1, Kind: "message", Card: "opt", Type: "Invoice.Item"}},
			Nested: []M{{Name: "Item", Fields: []F{{Name: "s", Num: 1, Kind: "string", Card: "opt"}}}}},
		{Name: "Order", Fields: []F{{Name: "items", Num: 1, Kind: "message", Card: "rep", Type: "Order.Item"}},
			Nested: []M{{Name: "Item", Fields: []F{{Name: "id", Num: 1, Kind: "int32", Card: "req"}}}}},
		{Name: "Other", Fields: []F{{Name: "must", Num: 1, Kind: "bool", Card: "req"}}},
	}, nil, nil)
	// a message type imported from another .proto file of the same project that is not being generated in this run and whose
	// go_package names the package differently from its directory (".../api/v1;apiv1")
	atom("a3localimport", "proto3", []string{"local-import"}, nil, []M{
		{Name: "Invoice", Fields: []F{{Name: "id", Num: 1, Kind: "string", Card: "imp"}, {Name: "total", Num: 2, Kind: "message", Card: "imp", Type: "@dep.Money"},
			{Name: "lines", Num: 3, Kind: "message", Card: "rep", Type: "@dep.Money"}, {Name: "by_name", Num: 4, Kind: "map", MapKey: "string", MapVal: "message", MapType: "@dep.Money"},
			{Name: "cur", Num: 5, Kind: "enum", Card: "imp", Type: "@dep.Currency"}}},
	}, nil, nil)
	// ... referenced ONLY as a map value (no singular / repeated field pulls in the import)
	atom("a3localmapval", "proto3", []string{"local-import", "import-only-in-map-value"}, nil, []M{
		{Name: "Ledger", Fields: []F{{Name: "id", Num: 1, Kind: "string", Card: "imp"}, {Name: "by_name", Num: 4, Kind: "map", MapKey: "string", MapVal: "message", MapType: "@dep.Money"}}},
	}, nil, nil)
	// a file that declares enums only (no message to generate code for)
	atom("a3enumonly", "proto3", []string{"enum-only-file"}, nil, nil, []E{{Name: "Level", Values: []EV{{"LEVEL_NONE", 0}, {"LEVEL_HIGH", 1}}}}, nil)
	// upper-case letters in the .proto file name / directory: only the message part of a per-message file name is lower-cased
	atom("a3UpperCase", "proto3", []string{"upper-case-file-name"}, nil, []M{
		{Name: "SensorEvent", Fields: []F{{Name: "id", Num: 1, Kind: "int32", Card: "imp"}, {Name: "batch", Num: 2, Kind: "message", Card: "imp", Type: "Batch"}}},
		{Name: "Batch", Fields: []F{{Name: "n", Num: 1, Kind: "int64", Card: "imp"}}},
	}, nil, nil)
	// field numbers at which the tag key grows by a byte, and the largest one
	atom("a3fnum", "proto3", []string{"field-number-boundaries"}, nil, []M{
		{Name: "Leaf", Fields: []F{{Name: "a", Num: 1, Kind: "int32", Card: "imp"}, {Name: "b", Num: 2048, Kind: "string", Card: "imp"}}},
		{Name: "FN", Fields: []F{
			{Name: "f15", Num: 15, Kind: "int32", Card: "imp"}, {Name: "f16", Num: 16, Kind: "string", Card: "imp"},
			{Name: "f2047", Num: 2047, Kind: "sint64", Card: "rep"}, {Name: "f2048", Num: 2048, Kind: "bool", Card: "imp"},
			{Name: "f2049", Num: 2049, Kind: "map", MapKey: "int32", MapVal: "string"},
			{Name: "f262143", Num: 262143, Kind: "bytes", Card: "imp"}, {Name: "f262144", Num: 262144, Kind: "message", Card: "imp", Type: "Leaf"},
			{Name: "f33554431", Num: 33554431, Kind: "fixed32", Card: "imp"}, {Name: "f33554432", Num: 33554432, Kind: "double", Card: "rep"},
			{Name: "f16777216", Num: 16777216, Kind: "int64", Card: "imp"},
			{Name: "fmax", Num: 536870911, Kind: "string", Card: "rep"},
			{Name: "o2048", Num: 4096, Kind: "int32", Card: "imp", Oneof: "u"}, {Name: "o4097", Num: 4097, Kind: "message", Card: "imp", Type: "Leaf", Oneof: "u"}}},
	}, nil, nil)
	atom("a2fnum", "proto2", []string{"field-number-boundaries"}, nil, []M{
		{Name: "Leaf", Fields: []F{{Name: "a", Num: 1, Kind: "int32", Card: "opt"}, {Name: "b", Num: 2048, Kind: "string", Card: "req"}}},
		{Name: "FN", Fields: []F{
			{Name: "f15", Num: 15, Kind: "int32", Card: "opt"}, {Name: "f16", Num: 16, Kind: "string", Card: "opt"},
			{Name: "f2047", Num: 2047, Kind: "sint32", Card: "rep"}, {Name: "f2048", Num: 2048, Kind: "bool", Card: "req"},
			{Name: "f262143", Num: 262143, Kind: "bytes", Card: "opt"}, {Name: "f262144", Num: 262144, Kind: "message", Card: "opt", Type: "Leaf"},
			{Name: "f33554431", Num: 33554431, Kind: "sfixed32", Card: "opt"}, {Name: "f33554432", Num: 33554432, Kind: "fixed64", Card: "rep"},
			{Name: "fmax", Num: 536870911, Kind: "bytes", Card: "rep"}}},
	}, nil, nil)
	for _, k := range Kinds15 {
		atom("a3k"+k, "proto3", []string{"kind-" + k}, nil, []M{{Name: "K", Fields: []F{
			{Name: "v", Num: 1, Kind: k, Card: "imp"}, {Name: "r", Num: 2, Kind: k, Card: "rep"}, {Name: "m", Num: 3, Kind: "map", MapKey: "string", MapVal: k},
			{Name: "o", Num: 4, Kind: k, Card: "imp", Oneof: "u"}, {Name: "o2", Num: 5, Kind: "int32", Card: "imp", Oneof: "u"}}}}, nil, nil)
		atom("a2k"+k, "proto2", []string{"kind-" + k}, nil, []M{{Name: "K", Fields: []F{
			{Name: "v", Num: 1, Kind: k, Card: "opt"}, {Name: "q", Num: 2, Kind: k, Card: "req"}, {Name: "r", Num: 3, Kind: k, Card: "rep"},
			{Name: "m", Num: 4, Kind: "map", MapKey: "string", MapVal: k}}}}, nil, nil)
	}
	return files
}

// LegacyV1Bases are the corpus files also generated for the legacy google-v1 flavour ("gv1").
var LegacyV1Bases = map[string]bool{"p3": true, "p2": true, "p2req": true, "p2ext": true}

// ByBase returns the file with the given base name.
func ByBase(base string) (File, error) {
	for _, f := range Files() {
		if f.Base == base {
			return f, nil
		}
	}
	return File{}, fmt.Errorf("no corpus file %q", base)
}
