package msgdrv

// FamHist and FamAlias are implemented in hist_impl.go (C09, C10).
