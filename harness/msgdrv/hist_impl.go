package msgdrv

func (d *Driver) FamHist(n int)  {}
func (d *Driver) FamAlias(n int) {}
