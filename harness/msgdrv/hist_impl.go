package msgdrv

import (
	"bytes"
	"fmt"
	"reflect"
	"strings"
	"sync"
	"unsafe"

	"github.com/CrowdStrike/csproto"
	gogoproto "github.com/gogo/protobuf/proto"
	"google.golang.org/protobuf/encoding/protowire"
	"google.golang.org/protobuf/proto"

	"verif/harness/tr"
)

// sizeCacheOf reads the size-cache field of a generated struct (sizeCache / XXX_sizecache) without calling any method.
func sizeCacheOf(msg interface{}) int {
	v := reflect.ValueOf(msg).Elem()
	for _, name := range []string{"sizeCache", "XXX_sizecache"} {
		f := v.FieldByName(name)
		if f.IsValid() {
			return int(*(*int32)(unsafe.Pointer(f.UnsafeAddr())))
		}
	}
	return -1
}

// histObj is one object under a history of operations.
type histObj struct {
	ti  TypeInfo
	msg interface{}
	id  int
}

// freshBytes marshals a fresh deep copy (built by the walkers from the abstract contents) with the generated Marshal.
func (d *Driver) freshBytes(ti TypeInfo, am AM) ([]byte, string) {
	var out []byte
	var err error
	st, note := "", ""
	guard(&st, &note, func() {
		fresh := d.Build(ti, am)
		out, err = fresh.(marshaler).Marshal()
	})
	if st == "" {
		st = errStatus(err)
	}
	return out, st
}

func (d *Driver) rtSize(msg interface{}) int {
	if pm, ok := msg.(proto.Message); ok {
		return proto.Size(pm)
	}
	return gogoproto.Size(msg.(gogoproto.Message))
}

func (d *Driver) rtMarshal(msg interface{}) ([]byte, error) {
	if pm, ok := msg.(proto.Message); ok {
		return proto.Marshal(pm)
	}
	return gogoproto.Marshal(msg.(gogoproto.Message))
}

// mutate applies one direct field mutation (through the walkers, as user code assigning struct fields would) and
// returns the new abstract contents.
func (d *Driver) mutateAM(t string, am AM, kind string) AM {
	m := cloneAM(am)
	fds := d.S.must(t)
	if len(fds) == 0 {
		return m
	}
	for tries := 0; tries < 20; tries++ {
		i := d.R.Intn(len(fds))
		fd := fds[i]
		af := &m.F[i]
		switch kind {
		case "clear":
			if af.P == 1 && fd.C != "req" {
				*af = emptyField(fd)
				return m
			}
		case "grow":
			switch {
			case fd.C == "rep" && fd.K != "message":
				af.P = 1
				af.L = append(af.L, rndScalar(d.R, fd.K, true))
				return m
			case fd.C == "rep":
				af.P = 1
				af.L = append(af.L, mv(d.S.WithRequired(fd.T, d.S.Random(fd.T, d.R, 2, 2), d.R)))
				return m
			case fd.C == "map" && fd.Mv != "message":
				e := AKV{K: rndScalar(d.R, fd.Mk, true), V: rndScalar(d.R, fd.Mv, true)}
				dup := false
				for _, x := range af.KV {
					if sameInts(x.K.S, e.K.S) {
						dup = true
					}
				}
				if !dup {
					af.P = 1
					af.KV = append(af.KV, e)
					sortKV(af.KV)
					return m
				}
			case (fd.K == "string" || fd.K == "bytes") && fd.O == "" && fd.C != "rep" && fd.C != "map":
				af.P = 1
				af.V = sv(append(append([]int{}, af.V.S...), 'x', 'y', 'z'))
				return m
			}
		case "shrink":
			if fd.C == "rep" && len(af.L) > 0 {
				af.L = af.L[:len(af.L)-1]
				if len(af.L) == 0 {
					*af = emptyField(fd)
				}
				return m
			}
			if (fd.K == "string" || fd.K == "bytes") && fd.C != "rep" && fd.C != "map" && len(af.V.S) > 1 {
				af.V = sv(af.V.S[:len(af.V.S)/2])
				return m
			}
		case "nested":
			if fd.K == "message" && fd.C != "rep" && fd.C != "map" && fd.O == "" {
				af.P = 1
				af.V = mv(d.S.WithRequired(fd.T, d.S.Random(fd.T, d.R, 2, 3), d.R))
				return m
			}
		default: // set
			if fd.C != "rep" && fd.C != "map" && fd.K != "message" && fd.O == "" {
				af.P = 1
				af.V = rndScalar(d.R, fd.K, fd.C != "imp")
				return m
			}
		}
	}
	return m
}

// applyAM makes obj hold exactly the abstract contents am by direct assignment of the changed fields
// (the struct is rebuilt field-wise by the walkers; the size-cache field is carried over untouched).
func (d *Driver) applyAM(o *histObj, am AM) {
	cache := sizeCacheOf(o.msg)
	fresh := d.Build(o.ti, am)
	// copy all fields of fresh into the existing object, then restore the cache word: a user assigning fields
	// never touches it
	dst := reflect.ValueOf(o.msg).Elem()
	src := reflect.ValueOf(fresh).Elem()
	for i := 0; i < dst.NumField(); i++ {
		name := dst.Type().Field(i).Name
		if name == "sizeCache" || name == "XXX_sizecache" || name == "state" || name == "XXX_NoUnkeyedLiteral" {
			continue
		}
		df := dst.Field(i)
		sf := src.Field(i)
		if !df.CanSet() {
			df = reflect.NewAt(df.Type(), unsafe.Pointer(df.UnsafeAddr())).Elem()
			sf = reflect.NewAt(sf.Type(), unsafe.Pointer(sf.UnsafeAddr())).Elem()
		}
		df.Set(sf)
	}
	_ = cache
}

func (d *Driver) histEvent(o *histObj, op string) *GEv {
	return &GEv{C: "hist", T: d.full(o.ti), Key: o.ti.Key, Fl: o.ti.Flavour, Set: o.ti.Set, Op: op, Obj: o.id, Cache: sizeCacheOf(o.msg)}
}

// finishHist fills the post-state: projection, fresh marshal of the current contents, cache after.
func (d *Driver) finishHist(o *histObj, e *GEv) {
	var am AM
	st, note := "", ""
	guard(&st, &note, func() { am = d.Project(o.ti, o.msg) })
	if st == "panic" {
		e.St = "harness"
		e.Note = note
		d.emit(e)
		return
	}
	e.M = am
	if hasMultiMap(am) {
		e.Multi = 1
	}
	fb, fst := d.freshBytes(o.ti, am)
	e.Fresh = tr.Bytes(fb)
	e.Dynst = fst // status of marshaling the fresh copy ("ok" | "reqerr" | ...)
	e.Size2 = sizeCacheOf(o.msg)
	d.emit(e)
}

var histOps = []string{"set", "set", "clear", "grow", "grow", "shrink", "nested", "size", "marshal", "marshal", "marshalto", "rtsize", "rtmarshal",
	"unmarshal", "reset", "clone", "csize", "cmarshal"}

// FamHist: operation histories on single objects (C09).
func (d *Driver) FamHist(perType int) {
	nobj := 0
	for _, ti := range d.Types {
		d.W.NextGroup()
		t := d.full(ti)
		for h := 0; h < perType; h++ {
			nobj++
			start := d.S.WithRequired(t, d.S.Random(t, d.R, 0, 4), d.R)
			if d.R.Intn(4) == 0 {
				start = d.S.WithUnknowns(t, start, d.R, 0)
			}
			o := &histObj{ti: ti, id: nobj}
			st, note := "", ""
			guard(&st, &note, func() { o.msg = d.Build(ti, start) })
			if st == "panic" {
				continue
			}
			e := d.histEvent(o, "new")
			e.St = "ok"
			d.finishHist(o, e)
			cur := start
			steps := 3 + d.R.Intn(6)
			for s := 0; s < steps; s++ {
				op := histOps[d.R.Intn(len(histOps))]
				e := d.histEvent(o, op)
				var err error
				switch op {
				case "set", "clear", "grow", "shrink", "nested":
					next := d.S.WithRequired(t, d.mutateAM(t, cur, op), d.R)
					guard(&e.St, &e.Note, func() { d.applyAM(o, next) })
					if e.St == "panic" {
						e.St = "harness"
					} else {
						e.St = "ok"
					}
					cur = next
				case "size":
					guard(&e.St, &e.Note, func() { e.Size = o.msg.(sizer).Size() })
				case "csize":
					e.Op = "size"
					guard(&e.St, &e.Note, func() { e.Size = csproto.Size(o.msg) })
				case "marshal":
					var out []byte
					guard(&e.St, &e.Note, func() { out, err = o.msg.(marshaler).Marshal() })
					e.Out = tr.Bytes(out)
				case "cmarshal":
					e.Op = "marshal"
					var out []byte
					guard(&e.St, &e.Note, func() { out, err = csproto.Marshal(o.msg) })
					e.Out = tr.Bytes(out)
				case "marshalto":
					guard(&e.St, &e.Note, func() {
						n := o.msg.(sizer).Size()
						// the caller's buffer is not fresh memory (a buffer that held the previous message): every byte of the
						// encoding has to be written
						buf := bytes.Repeat([]byte{0xA5}, n)
						err = o.msg.(marshalerTo).MarshalTo(buf)
						e.Out = tr.Bytes(buf)
					})
				case "rtsize":
					guard(&e.St, &e.Note, func() { e.Size = d.rtSize(o.msg) })
				case "rtmarshal":
					var out []byte
					guard(&e.St, &e.Note, func() { out, err = d.rtMarshal(o.msg) })
					e.Out = tr.Bytes(out)
				case "unmarshal":
					src := d.S.WithRequired(t, d.S.Random(t, d.R, 0, 4), d.R)
					if d.R.Intn(2) == 0 {
						src = d.S.WithUnknowns(t, src, d.R, 0) // data of a newer schema: unknown fields at the top level and in nested messages
					}
					b := d.S.Encode(t, src, EncOpts{})
					e.B = tr.Bytes(b)
					guard(&e.St, &e.Note, func() { err = o.msg.(unmarshaler).Unmarshal(append([]byte{}, b...)) })
					if e.St == "" && err == nil {
						cur = src
					}
				case "reset":
					guard(&e.St, &e.Note, func() { csproto.Reset(o.msg) })
					cur = d.S.Empty(t)
				case "clone":
					var c interface{}
					guard(&e.St, &e.Note, func() { c = csproto.Clone(o.msg) })
					if e.St == "" && c != nil {
						// equal and independent: the clone projects to the same contents and survives a Reset of the original's copy
						e.Eq = 0
						cm := d.Project(ti, c)
						if EqualAM(cm, d.Project(ti, o.msg)) {
							e.Eq = 1
						}
						// continue the history on the clone
						o.msg = c
					}
				}
				if e.St == "" {
					e.St = errStatus(err)
				}
				d.finishHist(o, e)
				if e.St == "panic" || e.St == "harness" {
					break
				}
			}
		}
	}
}

// FamReaders: N goroutines call Size/Marshal on a message nobody mutates (C09 concurrent clause); run under -race.
func (d *Driver) FamReaders(perType, G, iters int) {
	nobj := 1 << 20
	for _, ti := range d.Types {
		d.W.NextGroup()
		t := d.full(ti)
		for h := 0; h < perType; h++ {
			nobj++
			am := d.S.WithRequired(t, d.S.Random(t, d.R, 0, 5), d.R)
			msg := d.Build(ti, am)
			fb, fst := d.freshBytes(ti, am)
			if fst != "ok" {
				continue
			}
			type res struct {
				size int
				out  []byte
				st   string
			}
			results := make([][]res, G)
			o := &histObj{ti: ti, id: nobj, msg: msg}
			e := d.histEvent(o, "new")
			e.St = "ok"
			d.finishHist(o, e)
			// the readers are also the first users of the message's type: the classification cache is emptied (verif hook), so that
			// whatever the generated Size / MarshalTo consult on the way (extendable messages ask csproto.MsgType) is first used concurrently
			csproto.VerifResetMsgTypeCache()
			var wg sync.WaitGroup
			for g := 0; g < G; g++ {
				wg.Add(1)
				go func(g int) {
					defer wg.Done()
					for i := 0; i < iters; i++ {
						var r res
						var err error
						note := ""
						guard(&r.st, &note, func() {
							if (i+g)%2 == 0 {
								r.size = msg.(sizer).Size()
								r.out, err = msg.(marshaler).Marshal()
							} else {
								r.out, err = csproto.Marshal(msg)
								r.size = csproto.Size(msg)
							}
						})
						if r.st == "" {
							r.st = errStatus(err)
						}
						results[g] = append(results[g], r)
					}
				}(g)
			}
			wg.Wait()
			// one event per distinct outcome, whichever goroutines saw it (the first of them is named): a frozen message has one outcome,
			// so the trace holds one pair of events per message - not one per goroutine (100 MB per shard with 64 goroutines)
			seen := map[string]bool{}
			for g := 0; g < G; g++ {
				for _, r := range results[g] {
					k := fmt.Sprint(r.size, r.st, string(r.out))
					if seen[k] {
						continue
					}
					seen[k] = true
					e := &GEv{C: "hist", T: t, Key: ti.Key, Fl: ti.Flavour, Set: ti.Set, Op: "marshal", Obj: nobj, St: r.st, Out: tr.Bytes(r.out), M: am, Fresh: tr.Bytes(fb), Dynst: "ok", Mode: g + 1}
					if hasMultiMap(am) {
						e.Multi = 1
					}
					d.emit(e)
					e2 := *e
					e2.Op, e2.Size, e2.Out = "size", r.size, nil
					d.emit(&e2)
				}
			}
		}
	}
}

// ---------------------------------------------------------------------------------------------
// C10: safe-mode decoding never aliases the caller's buffer

// overlaps reports whether any []byte / string reachable from v points into buf.
func overlaps(v reflect.Value, lo, hi uintptr, depth int, kinds map[string]bool) bool {
	if depth > 8 {
		return false
	}
	switch v.Kind() {
	case reflect.Ptr, reflect.Interface:
		if v.IsNil() {
			return false
		}
		return overlaps(v.Elem(), lo, hi, depth+1, kinds)
	case reflect.Struct:
		for i := 0; i < v.NumField(); i++ {
			f := v.Field(i)
			if !f.CanInterface() {
				if f.Kind() == reflect.Slice && f.Type().Elem().Kind() == reflect.Uint8 && f.CanAddr() {
					f = reflect.NewAt(f.Type(), unsafe.Pointer(f.UnsafeAddr())).Elem()
				} else {
					continue
				}
			}
			overlaps(f, lo, hi, depth+1, kinds)
		}
	case reflect.Slice:
		if v.Type().Elem().Kind() == reflect.Uint8 {
			if v.Len() == 0 {
				return false
			}
			p := v.Pointer()
			if p >= lo && p < hi {
				kinds["bytes"] = true
			}
			return len(kinds) > 0
		}
		for i := 0; i < v.Len(); i++ {
			overlaps(v.Index(i), lo, hi, depth+1, kinds)
		}
	case reflect.Map:
		it := v.MapRange()
		for it.Next() {
			overlaps(it.Key(), lo, hi, depth+1, kinds)
			overlaps(it.Value(), lo, hi, depth+1, kinds)
		}
	case reflect.String:
		if v.Len() == 0 {
			return false
		}
		p := uintptr(unsafe.Pointer(unsafe.StringData(v.String())))
		if p >= lo && p < hi {
			kinds["string"] = true
		}
	}
	return len(kinds) > 0
}

// FamAlias: Unmarshal, project, clobber / recycle the input buffer, project again.
func (d *Driver) FamAlias(perType int) {
	for tn, ti := range d.Types {
		d.W.NextGroup()
		t := d.full(ti)
		if tn == 0 {
			d.decoderModeAlias(ti)
		}
		vals := d.S.SingleFieldValues(t, d.R)
		for n := 0; n < perType; n++ {
			var am AM
			if n%2 == 0 {
				am = vals[d.R.Intn(len(vals))]
			} else {
				am = d.S.Random(t, d.R, 0, 6)
			}
			am = d.S.WithRequired(t, cloneAM(am), d.R)
			o := EncOpts{}
			if d.R.Intn(2) == 0 {
				o = EncOpts{R: d.R, Unknown: true}
			}
			b := d.S.Encode(t, am, o)
			if len(b) == 0 {
				continue
			}
			e := &GEv{C: "alias", T: t, Key: ti.Key, Fl: ti.Flavour, Set: ti.Set, B: tr.Bytes(b)}
			if ti.Set == "unsafe" {
				e.Mode = 1
			}
			in := make([]byte, len(b), len(b)+8)
			copy(in, b)
			dst := ti.New()
			var err error
			guard(&e.St, &e.Note, func() { err = dst.(unmarshaler).Unmarshal(in) })
			if e.St == "" {
				e.St = errStatus(err)
			}
			if e.St != "ok" {
				e.St = "harness" // a valid canonical encoding must unmarshal (C06's business); nothing to observe here
				e.Note = "unmarshal failed: " + e.Note
				continue
			}
			before := d.Project(ti, dst)
			lo := uintptr(unsafe.Pointer(&in[0]))
			e.Size = 0
			kinds := map[string]bool{}
			if overlaps(reflect.ValueOf(dst), lo, lo+uintptr(len(in)), 0, kinds) {
				e.Size = 1 // some string / bytes value points into the caller's buffer
				for _, k := range []string{"bytes", "string"} {
					if kinds[k] {
						e.Op += k + ","
					}
				}
			}
			switch d.R.Intn(3) {
			case 0:
				for i := range in {
					in[i] = 0xEE
				}
				e.Lbl = "overwrite"
			case 1:
				for i := range in {
					in[i] ^= 0x5A
				}
				in = in[:len(in)/2]
				e.Lbl = "truncate"
			default:
				other := d.S.Encode(t, d.S.WithRequired(t, d.S.Random(t, d.R, 0, 6), d.R), EncOpts{})
				copy(in, other)
				e.Lbl = "recycle"
			}
			after := d.Project(ti, dst)
			e.M, e.Dyn = before, after
			e.Eq = 0
			if EqualAM(before, after) {
				e.Eq = 1
			}
			d.emit(e)
		}
		// proto2 extensions with a length-delimited value (the abstract-message walkers do not see extensions): decoded by the generated
		// Unmarshal, read through csproto.GetExtension before and after the caller's buffer is clobbered
		for _, kind := range []string{"bytes", "string", "msg", "string@2", "msg@f"} {
			x, ok := ti.Exts[kind]
			if !ok {
				continue
			}
			payload := []byte("extension-payload-" + kind)
			if strings.HasPrefix(kind, "msg") {
				payload = protowire.AppendBytes(protowire.AppendTag(nil, 2, protowire.BytesType), []byte("inner-string-"+kind)) // Leaf.s
			}
			b := protowire.AppendVarint(protowire.AppendTag(nil, 1, protowire.VarintType), 7)
			b = protowire.AppendBytes(protowire.AppendTag(b, protowire.Number(extNumber[kind]), protowire.BytesType), payload)
			e := &GEv{C: "alias", T: t, Key: ti.Key, Fl: ti.Flavour, Set: ti.Set, B: tr.Bytes(b), Lbl: "ext-" + kind + "/overwrite"}
			if ti.Set == "unsafe" {
				e.Mode = 1
			}
			in := append([]byte{}, b...)
			dst := ti.New()
			var err error
			var before, after string
			guard(&e.St, &e.Note, func() {
				if err = dst.(unmarshaler).Unmarshal(in); err != nil {
					return
				}
				v, gerr := csproto.GetExtension(dst, x)
				if gerr != nil {
					err = gerr
					return
				}
				before = canon(ti.Flavour, v)
				if bs, isBytes := v.([]byte); isBytes && len(bs) > 0 {
					lo, p := uintptr(unsafe.Pointer(&in[0])), uintptr(unsafe.Pointer(&bs[0]))
					if p >= lo && p < lo+uintptr(len(in)) {
						e.Size = 1
						e.Op = "bytes,"
					}
				}
				for i := range in {
					in[i] = 0xEE
				}
				v2, _ := csproto.GetExtension(dst, x)
				after = canon(ti.Flavour, v2)
			})
			if e.St == "" {
				e.St = errStatus(err)
			}
			if e.St != "ok" {
				// the v1-API flavours cannot take scalar / string extensions through the generated Unmarshal (recorded finding of C12)
				continue
			}
			e.M, e.Dyn = d.Project(ti, dst), d.Project(ti, dst)
			e.Eq = b2i(before == after && before != "")
			if e.Eq == 0 {
				e.Note = "extension value before: " + before + " after: " + after
			}
			d.emit(e)
		}
	}
}

// decoderModeAlias: csproto.Decoder itself ("... or decoder mode").  DecodeString copies in safe mode and may alias in fast mode; what
// counts is the mode the decoder is in when the string is read, whatever it was switched to before.
func (d *Driver) decoderModeAlias(ti TypeInfo) {
	t := d.full(ti)
	empty := d.Project(ti, ti.New())
	for _, hist := range [][]csproto.DecoderMode{{}, {csproto.DecoderModeSafe}, {csproto.DecoderModeFast}, {csproto.DecoderModeFast, csproto.DecoderModeSafe},
		{csproto.DecoderModeSafe, csproto.DecoderModeFast}, {csproto.DecoderModeFast, csproto.DecoderModeFast, csproto.DecoderModeSafe},
		{csproto.DecoderModeSafe, csproto.DecoderModeFast, csproto.DecoderModeSafe}, {csproto.DecoderModeFast, csproto.DecoderModeSafe, csproto.DecoderModeFast}} {
		for _, readFirst := range []bool{false, true} {
			buf := []byte{0x0a, 0x05, 'h', 'e', 'l', 'l', 'o', 0x0a, 0x05, 'w', 'o', 'r', 'l', 'd'}
			e := &GEv{C: "alias", T: t, Key: "csproto.Decoder", Fl: ti.Flavour, Set: "decoder", B: tr.Bytes(buf), M: empty, Dyn: empty, Lbl: fmt.Sprintf("decoder-modes-%v-readfirst=%v", hist, readFirst)}
			var s string
			var err error
			guard(&e.St, &e.Note, func() {
				dec := csproto.NewDecoder(buf)
				for i, m := range hist {
					dec.SetMode(m)
					if readFirst && i == 0 {
						// a string is read while the first mode is in force, the one that is judged is read under the last
						_, _, _ = dec.DecodeTag()
						_, _ = dec.DecodeString()
					}
				}
				if _, _, err = dec.DecodeTag(); err != nil {
					return
				}
				s, err = dec.DecodeString()
				if dec.Mode() == csproto.DecoderModeFast {
					e.Mode = 1
				}
			})
			if e.St == "" {
				e.St = errStatus(err)
			}
			if e.St != "ok" {
				e.St = "harness"
				d.emit(e)
				continue
			}
			before := string(append([]byte{}, s...))
			for i := range buf {
				buf[i] = 'X'
			}
			e.Eq = b2i(s == before)
			if e.Eq == 0 {
				e.Size, e.Op = 1, "string,"
			}
			d.emit(e)
		}
	}
}
