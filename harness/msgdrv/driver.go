package msgdrv

import (
	"bytes"
	"compress/gzip"
	"encoding/json"
	"flag"
	"fmt"
	gogoproto "github.com/gogo/protobuf/proto"
	"google.golang.org/protobuf/encoding/protowire"
	"io"
	"math/rand"
	"os"
	"reflect"
	"runtime"
	"strings"

	"github.com/CrowdStrike/csproto"
	"google.golang.org/protobuf/proto"
	"google.golang.org/protobuf/reflect/protodesc"
	"google.golang.org/protobuf/reflect/protoreflect"
	"google.golang.org/protobuf/reflect/protoregistry"
	"google.golang.org/protobuf/types/descriptorpb"
	"google.golang.org/protobuf/types/dynamicpb"

	"verif/harness/tr"
)

// TypeInfo describes one generated message type of the corpus.
type TypeInfo struct {
	Key     string // set/flavour/base/GoName
	Set     string
	Flavour string // gogo | gv2
	Base    string
	GoName  string
	New     func() interface{}     // pointer to a fresh generated struct
	Exts    map[string]interface{} // extension descriptors by kind name (extendable corpus messages only)
}

// GEv is the uniform event record of the "gen" traces (spec/TraceGen.tla).
type GEv struct {
	C     string `json:"c"`
	T     string `json:"t"`
	Key   string `json:"key"`
	Fl    string `json:"fl"`
	Set   string `json:"set"`
	Op    string `json:"op"`
	Lbl   string `json:"lbl"`
	M     AM     `json:"m"`
	B     []int  `json:"b"`
	Valid int    `json:"valid"`
	St    string `json:"st"`
	Size  int    `json:"size"`
	Out   []int  `json:"out"`
	St2   string `json:"st2"`
	To    []int  `json:"to"`
	Clean int    `json:"clean"`
	Dynst string `json:"dynst"`
	Dyn   AM     `json:"dyn"`
	Alloc int    `json:"alloc"`
	Size2 int    `json:"size2"`
	Obj   int    `json:"obj"`
	Cache int    `json:"cache"`
	Fresh []int  `json:"fresh"`
	Multi int    `json:"multi"` // 1: the message holds a map with >= 2 entries (byte order of Marshal is not fixed)
	Mode  int    `json:"mode"`
	Eq    int    `json:"eq"`
	Note  string `json:"note"`
}

func normAM(m *AM) {
	if m.F == nil {
		m.F = []AF{}
	}
	if m.U == nil {
		m.U = []int{}
	}
	for i := range m.F {
		f := &m.F[i]
		normAV(&f.V)
		if f.L == nil {
			f.L = []AV{}
		}
		for j := range f.L {
			normAV(&f.L[j])
		}
		if f.KV == nil {
			f.KV = []AKV{}
		}
		for j := range f.KV {
			normAV(&f.KV[j].K)
			normAV(&f.KV[j].V)
		}
	}
}

func normAV(a *AV) {
	if a.S == nil {
		a.S = []int{}
	}
	if a.M == nil {
		a.M = []AM{}
	}
	for i := range a.M {
		normAM(&a.M[i])
	}
}

func (e *GEv) norm() {
	normAM(&e.M)
	normAM(&e.Dyn)
	if e.B == nil {
		e.B = []int{}
	}
	if e.Out == nil {
		e.Out = []int{}
	}
	if e.To == nil {
		e.To = []int{}
	}
	if e.Fresh == nil {
		e.Fresh = []int{}
	}
}

// Driver holds the state of one recording run.
type Driver struct {
	W       *tr.Writer
	R       *rand.Rand
	S       Schema
	Types   []TypeInfo
	desc    map[string]protoreflect.MessageDescriptor // key -> descriptor
	rtypes  map[string]reflect.Type
	Skipped []string
}

func (d *Driver) emit(e *GEv) {
	e.norm()
	d.W.EmitAny(e)
}

// gogoResolver resolves imports of gogo-generated files: the global registry of google.golang.org/protobuf first (well-known types),
// then the registry of github.com/gogo/protobuf, where gogo-generated files register their gzipped descriptors.
type gogoResolver struct {
	byPath map[string]protoreflect.FileDescriptor
}

var gogoFiles = &gogoResolver{byPath: map[string]protoreflect.FileDescriptor{}}

func (r *gogoResolver) FindFileByPath(path string) (protoreflect.FileDescriptor, error) {
	if fd, err := protoregistry.GlobalFiles.FindFileByPath(path); err == nil {
		return fd, nil
	}
	if fd, ok := r.byPath[path]; ok {
		return fd, nil
	}
	gz := gogoproto.FileDescriptor(path)
	if gz == nil {
		return nil, protoregistry.NotFound
	}
	zr, err := gzip.NewReader(bytes.NewReader(gz))
	if err != nil {
		return nil, err
	}
	raw, err := io.ReadAll(zr)
	if err != nil {
		return nil, err
	}
	var fdp descriptorpb.FileDescriptorProto
	if err := proto.Unmarshal(raw, &fdp); err != nil {
		return nil, err
	}
	fd, err := protodesc.NewFile(&fdp, r)
	if err != nil {
		return nil, err
	}
	r.byPath[path] = fd
	return fd, nil
}

func (r *gogoResolver) FindDescriptorByName(name protoreflect.FullName) (protoreflect.Descriptor, error) {
	if d, err := protoregistry.GlobalFiles.FindDescriptorByName(name); err == nil {
		return d, nil
	}
	for _, fd := range r.byPath {
		if !strings.HasPrefix(string(name), string(fd.Package())+".") {
			continue
		}
		rel := protoreflect.Name(strings.TrimPrefix(string(name), string(fd.Package())+"."))
		if md := fd.Messages().ByName(rel); md != nil {
			return md, nil
		}
		if ed := fd.Enums().ByName(rel); ed != nil {
			return ed, nil
		}
	}
	return nil, protoregistry.NotFound
}

// descriptorOf finds the message descriptor of a generated type.
func descriptorOf(ti TypeInfo, files map[string]protoreflect.FileDescriptor) (protoreflect.MessageDescriptor, error) {
	m := ti.New()
	if pm, ok := m.(proto.Message); ok {
		return pm.ProtoReflect().Descriptor(), nil
	}
	// golang/protobuf-style: Descriptor() returns the gzipped FileDescriptorProto and the message path
	dm, ok := m.(interface{ Descriptor() ([]byte, []int) })
	if !ok {
		return nil, fmt.Errorf("%s: no descriptor", ti.Key)
	}
	gz, path := dm.Descriptor()
	key := fmt.Sprintf("%p", &gz[0])
	fd, ok := files[key]
	if !ok {
		zr, err := gzip.NewReader(bytes.NewReader(gz))
		if err != nil {
			return nil, err
		}
		raw, err := io.ReadAll(zr)
		if err != nil {
			return nil, err
		}
		var fdp descriptorpb.FileDescriptorProto
		if err := proto.Unmarshal(raw, &fdp); err != nil {
			return nil, err
		}
		fd, err = protodesc.NewFile(&fdp, gogoFiles)
		if err != nil {
			return nil, err
		}
		files[key] = fd
	}
	md := fd.Messages().Get(path[0])
	for _, i := range path[1:] {
		md = md.Messages().Get(i)
	}
	return md, nil
}

// NewDriver prepares schema and descriptors for the given types.
func NewDriver(w *tr.Writer, seed int64, types []TypeInfo) *Driver {
	d := &Driver{W: w, R: rand.New(rand.NewSource(seed)), S: Schema{}, desc: map[string]protoreflect.MessageDescriptor{}, rtypes: map[string]reflect.Type{}}
	files := map[string]protoreflect.FileDescriptor{}
	for _, ti := range types {
		md, err := descriptorOf(ti, files)
		if err != nil {
			d.Skipped = append(d.Skipped, ti.Key+": "+err.Error())
			continue
		}
		d.S.AddMessage(md)
		d.desc[ti.Key] = md
		d.rtypes[ti.Key] = reflect.TypeOf(ti.New()).Elem()
		d.Types = append(d.Types, ti)
	}
	return d
}

func (d *Driver) full(ti TypeInfo) string { return string(d.desc[ti.Key].FullName()) }

// Build creates a concrete message of type ti from the abstract form, without touching generated methods.
func (d *Driver) Build(ti TypeInfo, am AM) interface{} {
	m := ti.New()
	if pm, ok := m.(proto.Message); ok {
		FillPR(d.S, pm.ProtoReflect(), am)
		return m
	}
	return BuildStruct(d.S, d.full(ti), d.rtypes[ti.Key], am)
}

// Project reads a concrete message back into the abstract form.
func (d *Driver) Project(ti TypeInfo, m interface{}) AM {
	if pm, ok := m.(proto.Message); ok {
		return ProjectPR(d.S, pm.ProtoReflect())
	}
	return ProjectStruct(d.S, d.full(ti), m)
}

func hasMultiMap(m AM) bool {
	for _, f := range m.F {
		if len(f.KV) >= 2 {
			return true
		}
		for _, e := range f.KV {
			if len(e.V.M) == 1 && hasMultiMap(e.V.M[0]) {
				return true
			}
		}
		if len(f.V.M) == 1 && hasMultiMap(f.V.M[0]) {
			return true
		}
		for _, e := range f.L {
			if len(e.M) == 1 && hasMultiMap(e.M[0]) {
				return true
			}
		}
	}
	return false
}

func guard(st *string, note *string, f func()) {
	defer func() {
		if r := recover(); r != nil {
			*st = "panic"
			*note = fmt.Sprint(r)
			if len(*note) > 300 {
				*note = (*note)[:300]
			}
		}
	}()
	f()
}

func errStatus(err error) string {
	if err == nil {
		return "ok"
	}
	if strings.Contains(err.Error(), "required") {
		return "reqerr"
	}
	return "err"
}

// dynParse parses b with the reference runtime from the descriptor alone.
func (d *Driver) dynParse(ti TypeInfo, b []byte) (st string, am AM) {
	// dynamicpb itself panics on some malformed map entries ("cannot convert nil to map key"): that is a reject
	defer func() {
		if r := recover(); r != nil {
			st, am = "err", AM{}
		}
	}()
	dm := dynamicpb.NewMessage(d.desc[ti.Key])
	err := proto.UnmarshalOptions{AllowPartial: true}.Unmarshal(b, dm)
	if err != nil {
		return "err", AM{}
	}
	st = "ok"
	if proto.CheckInitialized(dm) != nil {
		st = "uninit"
	}
	return st, ProjectPR(d.S, dm.ProtoReflect())
}

type sizer interface{ Size() int }
type marshaler interface{ Marshal() ([]byte, error) }
type marshalerTo interface{ MarshalTo([]byte) error }
type unmarshaler interface{ Unmarshal([]byte) error }

// marshalOne records Size / Marshal / MarshalTo of one message value (C04, C05, C17).
func (d *Driver) marshalOne(ti TypeInfo, am AM, lbl string) *GEv {
	e := &GEv{C: "marshal", T: d.full(ti), Key: ti.Key, Fl: ti.Flavour, Set: ti.Set, Lbl: lbl, M: am}
	if hasMultiMap(am) {
		e.Multi = 1
	}
	var msg interface{}
	guard(&e.St, &e.Note, func() { msg = d.Build(ti, am) })
	if e.St == "panic" {
		e.St = "harness"
		d.emit(e)
		return e
	}
	if strings.HasSuffix(lbl, "+rtsized") {
		// the owning runtime has sized / marshaled the (unchanged) message before the generated code does: whatever it left in the
		// message's size cache follows the runtime's convention, and the generated code has to read it that way
		func() {
			defer func() { _ = recover() }()
			_, _ = runtimeOf(ti.Flavour).marshal(msg)
		}()
	}
	var out []byte
	var err error
	guard(&e.St, &e.Note, func() {
		e.Size = msg.(sizer).Size()
		out, err = msg.(marshaler).Marshal()
	})
	if e.St == "" {
		e.St = errStatus(err)
		if err != nil {
			e.Note = err.Error()
		}
	}
	e.Out = tr.Bytes(out)
	if e.St == "ok" {
		back := make([]byte, e.Size+16)
		for i := range back {
			back[i] = 0xA5
		}
		buf := back[:e.Size]
		var err2 error
		guard(&e.St2, &e.Note, func() { err2 = msg.(marshalerTo).MarshalTo(buf) })
		if e.St2 == "" {
			e.St2 = errStatus(err2)
		}
		e.To = tr.Bytes(buf)
		e.Clean = 1
		for i := e.Size; i < len(back); i++ {
			if back[i] != 0xA5 {
				e.Clean = 0
			}
		}
		e.Dynst, e.Dyn = d.dynParse(ti, out)
	}
	d.emit(e)
	return e
}

// unmarshalOne records Unmarshal of b into a pre-populated destination, then Size/Marshal of the result (C06, C07, C08).
func (d *Driver) unmarshalOne(ti TypeInfo, b []byte, valid bool, lbl string, remarshal bool) *GEv {
	e := &GEv{C: "unmarshal", T: d.full(ti), Key: ti.Key, Fl: ti.Flavour, Set: ti.Set, Lbl: lbl, B: tr.Bytes(b)}
	if valid {
		e.Valid = 1
	}
	// destination with arbitrary other content
	var dst interface{}
	pre := d.S.Random(d.full(ti), d.R, 1, 4)
	guard(&e.St, &e.Note, func() { dst = d.Build(ti, pre) })
	if e.St == "panic" {
		e.St = "harness"
		d.emit(e)
		return e
	}
	in := append([]byte{}, b...)
	var err error
	a0 := tr.TotalAlloc()
	guard(&e.St, &e.Note, func() { err = dst.(unmarshaler).Unmarshal(in) })
	e.Alloc = int(tr.TotalAlloc() - a0)
	if e.Alloc > 64*len(b)+4096 && e.St != "panic" {
		// TotalAlloc is process-wide: a runtime-internal allocation (stack growth, a timer, the scavenger) can fall into the window.
		// An allocation driven by the input is deterministic: measure again on fresh destinations and keep the smallest reading.
		for k := 0; k < 3; k++ {
			d2 := d.Build(ti, pre)
			in2 := append([]byte{}, b...)
			x0 := tr.TotalAlloc()
			func() {
				defer func() { _ = recover() }()
				_ = d2.(unmarshaler).Unmarshal(in2)
			}()
			if x := int(tr.TotalAlloc() - x0); x < e.Alloc {
				e.Alloc = x
			}
		}
	}
	if e.St == "" {
		e.St = errStatus(err)
		if err != nil {
			e.Note = err.Error()
			if len(e.Note) > 200 {
				e.Note = e.Note[:200]
			}
		}
	}
	if ti.Set != "unsafe" {
		// safe mode: the caller owns the buffer again as soon as Unmarshal returns (a pooled read buffer is re-used); whatever the
		// message holds, reads as and marshals to from here on must not depend on it
		for i := range in {
			in[i] = 0xA5
		}
	}
	e.Dynst, e.Dyn = d.dynParse(ti, b)
	if e.St == "ok" {
		guard(&e.St2, &e.Note, func() { e.M = d.Project(ti, dst) })
		if e.St2 == "panic" {
			e.St = "harness"
			d.emit(e)
			return e
		}
		e.St2 = ""
		if remarshal {
			var out []byte
			var err2 error
			guard(&e.St2, &e.Note, func() {
				e.Size2 = dst.(sizer).Size()
				out, err2 = dst.(marshaler).Marshal()
			})
			if e.St2 == "" {
				e.St2 = errStatus(err2)
			}
			e.Out = tr.Bytes(out)
			e.Multi = 0
			if hasMultiMap(e.M) {
				e.Multi = 1
			}
		}
	}
	d.emit(e)
	return e
}

// FamMarshal: every field alone at each boundary value, then random combinations.
func (d *Driver) FamMarshal(nRandom int) {
	for _, ti := range d.Types {
		d.W.NextGroup()
		t := d.full(ti)
		for i, am := range d.S.SingleFieldValues(t, d.R) {
			d.marshalOne(ti, am, fmt.Sprintf("single-%d", i))
			if i%3 == 0 && longestList(am) <= 40 {
				d.marshalOne(ti, am, fmt.Sprintf("single-%d+rtsized", i))
			}
			// the same with all required fields filled in (so that the value itself is exercised)
			if withReq := d.S.WithRequired(t, cloneAM(am), d.R); !EqualAM(withReq, am) {
				d.marshalOne(ti, withReq, fmt.Sprintf("single-%d+req", i))
			}
		}
		for i := 0; i < nRandom; i++ {
			am := d.S.Random(t, d.R, 0, 6)
			if d.R.Intn(4) > 0 {
				am = d.S.WithRequired(t, am, d.R)
			}
			d.marshalOne(ti, am, fmt.Sprintf("random-%d", i))
			if i%3 == 0 {
				// the same contents carrying unknown fields (top level and nested), as left behind by Unmarshal of newer-schema data
				d.marshalOne(ti, d.S.WithUnknowns(t, am, d.R, 0), fmt.Sprintf("random-%d+unknown", i))
			}
		}
	}
}

func cloneAM(m AM) AM {
	b, _ := json.Marshal(m)
	var c AM
	_ = json.Unmarshal(b, &c)
	normAM(&c)
	return c
}

var variantOpts = []struct {
	name string
	o    EncOpts
}{
	{"canon", EncOpts{}},
	{"permute", EncOpts{Permute: true}},
	{"packing", EncOpts{FlipPacking: true}},
	{"dups", EncOpts{Duplicates: true}},
	{"mapshapes", EncOpts{MapShapes: true}},
	{"unknown", EncOpts{Unknown: true}},
	{"longkeys", EncOpts{LongKeys: true, Unknown: true}},
	{"all", EncOpts{Permute: true, FlipPacking: true, Duplicates: true, MapShapes: true, Unknown: true, LongKeys: true}},
}

// FamUnmarshal: legal encoding variants of value trees (C06, C07).
func (d *Driver) FamUnmarshal(nRandom int, everyNth int) {
	for _, ti := range d.Types {
		d.W.NextGroup()
		t := d.full(ti)
		vals := d.S.SingleFieldValues(t, d.R)
		for i, am := range vals {
			if everyNth > 1 && i%everyNth != 0 {
				continue
			}
			am = d.S.WithRequired(t, cloneAM(am), d.R)
			for _, vo := range variantOpts[:1] {
				d.unmarshalOne(ti, d.S.Encode(t, am, vo.o), true, fmt.Sprintf("single-%d/%s", i, vo.name), true)
			}
			if longestList(am) > 40 {
				continue // the packed-length boundary values: canonical form only (each costs the trace specification a long parse)
			}
			// every packable list of two or more elements as an unpacked element followed by two packed runs, whatever the seed
			if n := longestList(am); n >= 2 {
				d.unmarshalOne(ti, d.S.Encode(t, am, EncOpts{SplitRuns: true}), true, fmt.Sprintf("single-%d/splitruns", i), true)
			}
			// every field between two unknown fields, whatever the seed
			d.unmarshalOne(ti, d.S.Encode(t, am, EncOpts{Sandwich: true, R: d.R}), true, fmt.Sprintf("single-%d/sandwich", i), true)
			vo := variantOpts[1+d.R.Intn(len(variantOpts)-1)]
			o := vo.o
			o.R = d.R
			split := false
			o.Split = &split
			enc := d.S.Encode(t, am, o)
			d.unmarshalOne(ti, enc, true, fmt.Sprintf("single-%d/%s%s", i, vo.name, splitTag(split)), true)
		}
		for i := 0; i < nRandom; i++ {
			am := d.S.Random(t, d.R, 0, 6)
			if d.R.Intn(8) > 0 {
				am = d.S.WithRequired(t, am, d.R)
			}
			vo := variantOpts[d.R.Intn(len(variantOpts))]
			o := vo.o
			if vo.name != "canon" {
				o.R = d.R
			}
			split := false
			o.Split = &split
			enc := d.S.Encode(t, am, o)
			d.unmarshalOne(ti, enc, true, fmt.Sprintf("random-%d/%s%s", i, vo.name, splitTag(split)), true)
		}
		// every map field with the four entry shapes a conforming writer may produce, whatever the seed: the empty entry, key only,
		// value only and value before key (an entry that omits a message value is an empty message, and must marshal again)
		for _, me := range d.S.mapEdgeInputs(t) {
			d.unmarshalOne(ti, me.b, true, me.lbl, true)
		}
		// the empty input
		d.unmarshalOne(ti, nil, true, "empty-input", true)
	}
}

type labelled struct {
	lbl string
	b   []byte
}

func sampleScalar(kind string) ([]byte, bool) {
	switch kind {
	case "bool":
		return []byte{1}, true
	case "int32", "int64", "uint32", "uint64", "sint32", "sint64":
		return []byte{5}, true
	case "fixed32", "sfixed32", "float":
		return []byte{0, 0, 0x80, 0x3f}, true
	case "fixed64", "sfixed64", "double":
		return []byte{0, 0, 0, 0, 0, 0, 0xf0, 0x3f}, true
	case "string", "bytes":
		return []byte{1, 'k'}, true
	case "message":
		return []byte{0}, true
	}
	return nil, false // enum: the declared numbers are not known here
}

func (s Schema) mapEdgeInputs(t string) []labelled {
	var out []labelled
	for _, fd := range s.must(t) {
		if fd.C != "map" {
			continue
		}
		kv, _ := sampleScalar(fd.Mk)
		kb := protowire.AppendTag(nil, 1, wtOfKind(fd.Mk))
		kb = append(kb, kv...)
		shapes := []labelled{{"empty", nil}, {"keyonly", kb}}
		if vv, ok := sampleScalar(fd.Mv); ok {
			vb := protowire.AppendTag(nil, 2, wtOfKind(fd.Mv))
			vb = append(vb, vv...)
			shapes = append(shapes, labelled{"valueonly", vb}, labelled{"valuefirst", append(append([]byte{}, vb...), kb...)},
				labelled{"twice", append(append(append([]byte{}, kb...), vb...), kb...)})
		}
		for _, sh := range shapes {
			b := protowire.AppendTag(nil, protowire.Number(fd.N), protowire.BytesType)
			b = protowire.AppendBytes(b, sh.b)
			// two entries, so that a decoder reading past the end of the first one meets a second
			b = append(b, b...)
			out = append(out, labelled{fmt.Sprintf("mapedge-%d/%s", fd.N, sh.lbl), b})
		}
	}
	return out
}

func splitTag(b bool) string {
	if b {
		return "+split"
	}
	return ""
}

var wireAlphabet = []byte{0x00, 0x01, 0x02, 0x08, 0x0a, 0x0d, 0x7f, 0x80, 0xff}

// FamMutate: truncations, single-byte substitutions and length inflation of valid encodings, and random strings (C08).
func (d *Driver) FamMutate(perType int, dense bool) {
	for _, ti := range d.Types {
		d.W.NextGroup()
		t := d.full(ti)
		vals := d.S.SingleFieldValues(t, d.R)
		// every boundary value as it is (no mutation): "whenever both accept, the messages are equal" includes the inputs nobody touched
		for i, v := range vals {
			if longestList(v) <= 40 {
				d.unmarshalOne(ti, d.S.Encode(t, d.S.WithRequired(t, cloneAM(v), d.R), EncOpts{}), false, fmt.Sprintf("unmutated-single-%d", i), false)
			}
		}
		for n := 0; n < perType; n++ {
			var am AM
			if n%2 == 0 {
				am = vals[d.R.Intn(len(vals))]
			} else {
				am = d.S.Random(t, d.R, 0, 5)
			}
			am = d.S.WithRequired(t, cloneAM(am), d.R)
			eo := EncOpts{}
			if n%3 == 2 {
				// known fields between unknown ones
				eo = EncOpts{Sandwich: true, R: d.R}
			} else if n%3 == 1 {
				// repeated fields split over several occurrences, unpacked and packed
				eo = EncOpts{SplitRuns: true}
			}
			b := d.S.Encode(t, am, eo)
			if len(b) == 0 || len(b) > 400 || longestList(am) > 40 {
				// (the packed-length boundary values of SingleFieldValues are for the marshal / unmarshal families: every mutation of a
				// 130-element list costs the trace specification a 130-element parse)
				continue
			}
			d.unmarshalOne(ti, b, false, "unmutated", false)
			// truncation at every offset (dense) or at a few
			for cut := 0; cut < len(b); cut++ {
				if !dense && d.R.Intn(4) > 0 {
					continue
				}
				d.unmarshalOne(ti, b[:cut], false, fmt.Sprintf("trunc-%d", cut), false)
			}
			// substitutions
			for pos := 0; pos < len(b); pos++ {
				if !dense && d.R.Intn(6) > 0 {
					continue
				}
				x := wireAlphabet[d.R.Intn(len(wireAlphabet))]
				if x == b[pos] {
					continue
				}
				mb := append([]byte{}, b...)
				mb[pos] = x
				d.unmarshalOne(ti, mb, false, fmt.Sprintf("subst-%d-%02x", pos, x), false)
			}
			// wire-type flips: the three wire-type bits of a (single-byte) key replaced, at every nesting level - inside map entries and
			// sub-messages too, where the reference runtime skips a field of an unexpected wire type as unknown
			for _, pos := range keyOffsets(b, 0, 0) {
				for wt := byte(0); wt < 8; wt++ {
					if wt == b[pos]&7 || (!dense && n > 1 && d.R.Intn(5) > 0) {
						continue
					}
					mb := append([]byte{}, b...)
					mb[pos] = mb[pos]&^7 | wt
					d.unmarshalOne(ti, mb, false, fmt.Sprintf("wtflip-%d-%d", pos, wt), false)
				}
			}
			// every length prefix (at every nesting level) replaced by a declared length far beyond the input: 2^20 and 2^26 bytes
			// (a decoder that allocates from the declared length shows up in the allocation measurement; larger values could take
			// the whole process down, which the codec check (C03) turns into a verdict through its crash replay)
			for _, lp := range lenPrefixes(b, 0, 0) {
				for bi, big := range [][]byte{{0x80, 0x80, 0x40}, {0x80, 0x80, 0x80, 0x20},
					// ... and by declared lengths at which a conversion to int or int32 wraps: 2^31, 2^32, 2^63 and 2^64-1 (no decoder
					// can allocate these; one that computes with the wrapped value panics or reads the wrong bytes)
					{0x80, 0x80, 0x80, 0x80, 0x08}, {0x80, 0x80, 0x80, 0x80, 0x10},
					{0x80, 0x80, 0x80, 0x80, 0x80, 0x80, 0x80, 0x80, 0x80, 0x01}, {0xff, 0xff, 0xff, 0xff, 0xff, 0xff, 0xff, 0xff, 0xff, 0x01}} {
					if !dense && bi < 4 && d.R.Intn(3) > 0 {
						continue
					}
					mb := append(append(append([]byte{}, b[:lp[0]]...), big...), b[lp[0]+lp[1]:]...)
					d.unmarshalOne(ti, mb, false, fmt.Sprintf("leninflate-%d-%d", lp[0], bi), false)
				}
			}
			// length inflation: replace a byte by a huge varint
			for k := 0; k < 3; k++ {
				pos := d.R.Intn(len(b))
				pre := [][]byte{{0x7f}, {0x80, 0x01}, {0xff, 0xff, 0xff, 0xff, 0x07}, {0x80, 0x80, 0x80, 0x80, 0x10},
					{0xff, 0xff, 0xff, 0xff, 0xff, 0xff, 0xff, 0xff, 0xff, 0x01}}[d.R.Intn(5)]
				mb := append(append(append([]byte{}, b[:pos]...), pre...), b[pos+1:]...)
				d.unmarshalOne(ti, mb, false, fmt.Sprintf("inflate-%d", pos), false)
			}
		}
		// map fields: one value per map field with every wire-type flip of every key (outer key, entry key, entry value key): the
		// entry decoder is a separate piece of generated code per key / value kind
		for i, fd := range d.S.must(t) {
			if fd.C != "map" {
				continue
			}
			for _, am := range vals {
				if am.F[i].P != 1 || len(am.F[i].KV) == 0 {
					continue
				}
				// variable-length keys / values of 3 and 7 bytes: with the length byte they are exactly as long as a fixed32 / fixed64, so
				// that a flipped key still leaves a well-formed entry (the reference then skips the field as unknown)
				variants := []AM{cloneAM(am)}
				for _, n := range []int{3, 7} {
					v := cloneAM(am)
					touched := false
					if fd.Mv == "string" || fd.Mv == "bytes" {
						v.F[i].KV[0].V = sv(rep('v', n))
						touched = true
					}
					if fd.Mk == "string" {
						v.F[i].KV[0].K = sv(rep('k', n))
						touched = true
					}
					if touched {
						variants = append(variants, v)
					}
				}
				for vi, v := range variants {
					b := d.S.Encode(t, d.S.WithRequired(t, v, d.R), EncOpts{})
					if len(b) == 0 || len(b) > 200 {
						continue
					}
					for _, pos := range keyOffsets(b, 0, 0) {
						for wt := byte(0); wt < 8; wt++ {
							if wt != b[pos]&7 {
								mb := append([]byte{}, b...)
								mb[pos] = mb[pos]&^7 | wt
								d.unmarshalOne(ti, mb, false, fmt.Sprintf("wtflip-map%d.%d-%d-%d", fd.N, vi, pos, wt), false)
							}
						}
					}
				}
				break
			}
		}
		for k := 0; k < perType; k++ {
			rb := make([]byte, d.R.Intn(24))
			for i := range rb {
				if d.R.Intn(3) == 0 {
					rb[i] = byte(d.R.Intn(256))
				} else {
					rb[i] = wireAlphabet[d.R.Intn(len(wireAlphabet))]
				}
			}
			d.unmarshalOne(ti, rb, false, "random-bytes", false)
		}
	}
}

// keyOffsets returns the offsets of the single-byte field keys of b, descending into every length-delimited payload that is
// itself a well-formed message (a heuristic: strings that happen to parse are harmless extra mutation points).
func keyOffsets(b []byte, base, depth int) []int {
	var out []int
	i := 0
	for i < len(b) {
		num, typ, n := protowire.ConsumeTag(b[i:])
		if n < 0 || num < 1 {
			return nil
		}
		if n == 1 {
			out = append(out, base+i)
		}
		vn := protowire.ConsumeFieldValue(num, typ, b[i+n:])
		if vn < 0 {
			return nil
		}
		if typ == protowire.BytesType && depth < 6 {
			pay, pn := protowire.ConsumeBytes(b[i+n:])
			if pn > 0 && len(pay) > 0 {
				start := base + i + n + (pn - len(pay))
				if sub := keyOffsets(pay, start, depth+1); sub != nil {
					out = append(out, sub...)
				}
			}
		}
		i += n + vn
	}
	return out
}

// lenPrefixes returns (offset, size) of the length prefix of every length-delimited field of b, descending like keyOffsets.
func lenPrefixes(b []byte, base, depth int) [][2]int {
	var out [][2]int
	i := 0
	for i < len(b) {
		num, typ, n := protowire.ConsumeTag(b[i:])
		if n < 0 || num < 1 {
			return nil
		}
		vn := protowire.ConsumeFieldValue(num, typ, b[i+n:])
		if vn < 0 {
			return nil
		}
		if typ == protowire.BytesType {
			pay, pn := protowire.ConsumeBytes(b[i+n:])
			if pn > 0 {
				out = append(out, [2]int{base + i + n, pn - len(pay)})
				if len(pay) > 0 && depth < 6 {
					out = append(out, lenPrefixes(pay, base+i+n+(pn-len(pay)), depth+1)...)
				}
			}
		}
		i += n + vn
	}
	return out
}

// WriteSchema writes the schema-as-data for the TLA+ side.
func (d *Driver) WriteSchema(path string) error {
	b, err := json.Marshal(d.S)
	if err != nil {
		return err
	}
	return os.WriteFile(path, b, 0o644)
}

// Main is the entry point of the generated driver program: registry -> families.
func Main(types []TypeInfo) {
	fam := flag.String("fam", "marshal", "families: marshal,unmarshal,mutate,hist,alias")
	seed := flag.Int64("seed", 1, "seed")
	out := flag.String("out", "trace", "output prefix")
	shards := flag.Int("shards", 1, "shards")
	nrand := flag.Int("random", 20, "random values per type")
	every := flag.Int("every", 1, "use every n-th single-field value (unmarshal family)")
	dense := flag.Bool("dense", false, "dense mutation families")
	filter := flag.String("filter", "", "only types whose key contains this substring (comma separated alternatives)")
	sets := flag.String("sets", "", "only these option sets (comma separated)")
	G := flag.Int("g", 8, "goroutines (readers family)")
	iters := flag.Int("iters", 200, "iterations per goroutine (readers family)")
	procs := flag.Int("procs", 1, "GOMAXPROCS")
	scripts := flag.String("scripts", "", "file with TLC-emitted operation scripts (ext family)")
	maxScripts := flag.Int("maxscripts", 0, "use at most this many scripts (0 = all)")
	extprop := flag.String("extprop", "C05", "property the extval family records for (C04 | C05 | C06)")
	flag.Parse()
	runtime.GOMAXPROCS(*procs)
	var sel []TypeInfo
	for _, ti := range types {
		ok := *filter == ""
		for _, f := range strings.Split(*filter, ",") {
			if f != "" && strings.Contains(ti.Key, f) {
				ok = true
			}
		}
		if *sets != "" {
			in := false
			for _, s := range strings.Split(*sets, ",") {
				if s == ti.Set {
					in = true
				}
			}
			ok = ok && in
		}
		if ok {
			sel = append(sel, ti)
		}
	}
	var paths []string
	for i := 0; i < *shards; i++ {
		paths = append(paths, fmt.Sprintf("%s.%d.ndjson", *out, i))
	}
	w, err := tr.NewWriter(paths)
	if err != nil {
		fmt.Fprintln(os.Stderr, err)
		os.Exit(2)
	}
	d := NewDriver(w, *seed, sel)
	// message types that have generated fast-marshal code (every registered type, selected or not): a message of any other type is decoded by
	// its owning runtime alone, whose business it is how it keeps unknown fields (both Go runtimes re-encode their keys minimally)
	generatedTypes = map[string]bool{}
	regFiles := map[string]protoreflect.FileDescriptor{}
	for _, ti := range types {
		if md, err := descriptorOf(ti, regFiles); err == nil {
			generatedTypes[string(md.FullName())] = true
		}
	}
	for _, f := range strings.Split(*fam, ",") {
		switch f {
		case "marshal":
			d.FamMarshal(*nrand)
		case "unmarshal":
			d.FamUnmarshal(*nrand, *every)
		case "mutate":
			d.FamMutate(*nrand, *dense)
		case "hist":
			d.FamHist(*nrand)
		case "alias":
			d.FamAlias(*nrand)
		case "readers":
			d.FamReaders(*nrand, *G, *iters)
		case "dispatch":
			d.FamDispatch(*nrand, *G)
		case "plainhist":
			d.FamPlainHist(*nrand)
		case "mapentry":
			d.FamMapEntry(*nrand)
		case "ext":
			d.FamExt(*scripts, *maxScripts)
		case "extval":
			d.FamExtVal(*nrand, *extprop)
		case "json":
			d.FamJSON(*nrand)
		case "":
		default:
			fmt.Fprintln(os.Stderr, "unknown family", f)
			os.Exit(2)
		}
	}
	w.Close()
	if err := d.WriteSchema(*out + ".schemas.json"); err != nil {
		fmt.Fprintln(os.Stderr, err)
		os.Exit(2)
	}
	sk, _ := json.Marshal(d.Skipped)
	fmt.Printf("{\"events\": %d, \"types\": %d, \"skipped\": %s}\n", w.N, len(d.Types), sk)
	_ = csproto.Size
}

func longestList(m AM) int {
	n := 0
	for _, f := range m.F {
		if len(f.L) > n {
			n = len(f.L)
		}
	}
	return n
}

// MEv is one run of the generated map-entry decoder on one entry payload of the bounded domain of GenMapEntry.tla.
type MEv struct {
	C       string   `json:"c"`
	Key     string   `json:"key"`
	Kinds   []string `json:"kinds"`
	Payload []int    `json:"payload"`
	Tail    []int    `json:"tail"`
	St      string   `json:"st"`
	N       int      `json:"n"` // entries in the map afterwards
	K       []int    `json:"k"`
	V       []int    `json:"v"`
	U       []int    `json:"u"` // unknown bytes of the message afterwards (the tail, when the cursor landed where it should)
	Note    string   `json:"note"`
}

// FamMapEntry (C06 / C08; spec GenMapEntry.tla): every entry payload over the model's alphabet up to maxLen bytes, alone and followed by one
// more field of the enclosing message, through the generated Unmarshal of one map field per (key kind, value kind) pair of the model.
func (d *Driver) FamMapEntry(maxLen int) {
	alphabet := []byte{0, 1, 2, 8, 10, 16, 18, 128}
	tails := [][]byte{nil, {120, 1}}
	pairs := [][2]string{{"int32", "int32"}, {"string", "string"}, {"string", "int32"}, {"bool", "string"}}
	done := map[string]bool{}
	for _, ti := range d.Types {
		t := d.full(ti)
		for fi, fd := range d.S.must(t) {
			if fd.C != "map" || fd.N >= 2048 {
				continue
			}
			var pair *[2]string
			for i := range pairs {
				if pairs[i][0] == fd.Mk && pairs[i][1] == fd.Mv {
					pair = &pairs[i]
				}
			}
			// one map field per pair, flavour and option set - and no field 15 in the type (the tail is an unknown field)
			id := fmt.Sprintf("%s/%s/%s", ti.Set, ti.Flavour, fd.Mk+","+fd.Mv)
			hasReq := false
			for _, g := range d.S.must(t) {
				hasReq = hasReq || g.C == "req"
			}
			if _, idx := d.S.Field(t, 15); pair == nil || done[id] || idx >= 0 || hasReq {
				continue
			}
			done[id] = true
			d.W.NextGroup()
			var rec func(p []byte)
			rec = func(p []byte) {
				for _, tail := range tails {
					b := protowire.AppendTag(nil, protowire.Number(fd.N), protowire.BytesType)
					b = protowire.AppendBytes(b, p)
					b = append(b, tail...)
					e := &MEv{C: "mapentry", Key: ti.Key, Kinds: pair[:], Payload: tr.Bytes(p), Tail: tr.Bytes(tail), K: []int{}, V: []int{}, U: []int{}}
					dst := ti.New()
					var err error
					func() {
						defer func() {
							if r := recover(); r != nil {
								e.St, e.Note = "panic", fmt.Sprint(r)
							}
						}()
						err = dst.(unmarshaler).Unmarshal(append([]byte{}, b...))
					}()
					if e.St == "" {
						e.St = errStatus(err)
					}
					if e.St == "ok" {
						am := d.Project(ti, dst)
						kv := am.F[fi].KV
						e.N = len(kv)
						if len(kv) > 0 {
							e.K, e.V = kv[len(kv)-1].K.S, kv[len(kv)-1].V.S
						}
						e.U = am.U
					}
					if e.K == nil {
						e.K = []int{}
					}
					if e.V == nil {
						e.V = []int{}
					}
					if e.U == nil {
						e.U = []int{}
					}
					d.W.EmitAny(e)
				}
				if len(p) < maxLen {
					for _, a := range alphabet {
						rec(append(append([]byte{}, p...), a))
					}
				}
			}
			rec(nil)
		}
	}
}
