package msgdrv

import (
	"math"
	"math/rand"

	"google.golang.org/protobuf/encoding/protowire"

	"verif/harness/tr"
)

func word(v uint64) AV { return sv(tr.Word(v)) }

func rep(b byte, n int) []int {
	r := make([]int, n)
	for i := range r {
		r[i] = int(b) + i%3
	}
	return r
}

// Boundary values of a scalar kind (abstract form).  zero says whether the zero value is included.
func Boundary(k string, zero bool) []AV {
	var out []AV
	add := func(vs ...uint64) {
		for _, v := range vs {
			out = append(out, word(v))
		}
	}
	switch k {
	case "bool":
		add(1)
		if zero {
			add(0)
		}
	case "int32", "sint32", "enum":
		add(1, math.MaxUint64, 127, 128, math.MaxInt32, 0xFFFFFFFF80000000, 0xFFFFFFFFFFFFFF80)
		if k == "enum" {
			out = out[:2]
			add(math.MaxInt32, 0xFFFFFFFF80000000)
		}
		if zero {
			add(0)
		}
	case "uint32":
		add(1, 127, 128, 16383, 16384, math.MaxUint32)
		if zero {
			add(0)
		}
	case "int64", "sint64":
		add(1, math.MaxUint64, 1<<31, 1<<32, math.MaxInt64, 1<<63, 1<<63+1)
		if zero {
			add(0)
		}
	case "uint64":
		add(1, 127, 128, 1<<32, 1<<63, math.MaxUint64)
		if zero {
			add(0)
		}
	case "fixed32", "sfixed32":
		out = append(out, sv(tr.LE32(1)), sv(tr.LE32(0xFFFFFFFF)), sv(tr.LE32(0x80000000)))
		if zero {
			out = append(out, sv(tr.LE32(0)))
		}
	case "float":
		out = append(out, sv(tr.F32(1.5)), sv(tr.LE32(0x80000000)), sv(tr.LE32(0x7fc00001)), sv(tr.LE32(0xff800000)))
		if zero {
			out = append(out, sv(tr.LE32(0)))
		}
	case "fixed64", "sfixed64":
		out = append(out, sv(tr.LE64(1)), sv(tr.LE64(math.MaxUint64)), sv(tr.LE64(1<<63)))
		if zero {
			out = append(out, sv(tr.LE64(0)))
		}
	case "double":
		out = append(out, sv(tr.F64(-2.25)), sv(tr.LE64(1<<63)), sv(tr.LE64(0x7ff8000000000001)), sv(tr.LE64(0x7ff0000000000000)))
		if zero {
			out = append(out, sv(tr.LE64(0)))
		}
	case "string", "bytes":
		out = append(out, sv([]int{'a'}), sv(rep('b', 2)), sv(rep('c', 127)), sv(rep('d', 128)))
		if zero {
			out = append(out, sv([]int{}))
		}
	}
	return out
}

func isZeroAV(k string, a AV) bool {
	for _, x := range a.S {
		if x != 0 {
			return false
		}
	}
	return k != "message"
}

// rndScalar returns a random value of kind k; zero values are avoided when !zero.
func rndScalar(r *rand.Rand, k string, zero bool) AV {
	for {
		var a AV
		switch k {
		case "bool":
			a = word(uint64(r.Intn(2)))
		case "int32", "sint32":
			a = word(uint64(int64(int32(rnd64(r)))))
		case "enum":
			a = word(uint64(int64([]int32{0, 1, -1, 2147483647, 5}[r.Intn(5)])))
		case "uint32":
			a = word(uint64(uint32(rnd64(r))))
		case "int64", "sint64", "uint64":
			a = word(rnd64(r))
		case "float":
			// a signalling NaN cannot pass through protoreflect (float32 -> float64 conversion quiets it): keep NaNs quiet
			u := uint32(rnd64(r))
			if u&0x7f800000 == 0x7f800000 && u&0x007fffff != 0 {
				u |= 0x00400000
			}
			a = sv(tr.LE32(u))
		case "fixed32", "sfixed32":
			a = sv(tr.LE32(uint32(rnd64(r))))
		case "fixed64", "sfixed64", "double":
			a = sv(tr.LE64(rnd64(r)))
		default:
			if k == "string" && r.Intn(3) == 0 {
				// text with characters that matter to text / JSON renderings (always valid UTF-8)
				var sb []byte
				for j := 1 + r.Intn(4); j > 0; j-- {
					sb = append(sb, snippets[r.Intn(len(snippets))]...)
				}
				b := make([]int, len(sb))
				for i := range sb {
					b[i] = int(sb[i])
				}
				a = sv(b)
				break
			}
			n := []int{0, 1, 2, 3, 5, 17}[r.Intn(6)]
			b := make([]int, n)
			for i := range b {
				if k == "string" {
					b[i] = 'a' + r.Intn(26)
				} else {
					b[i] = r.Intn(256)
				}
			}
			a = sv(b)
		}
		if zero || !isZeroAV(k, a) {
			return a
		}
	}
}

var snippets = []string{"C:\\Program Files\\", "hello wide world", "tail\\", "a, b", "k:  v", "\": \"", "\"", "\\", "{", "}", "[1, 2]", "\n", "\t", " ", "\u00e9", "\u65e5\u672c", "<&>", "x,y", ": ", "//", "null", "0"}

func rnd64(r *rand.Rand) uint64 {
	switch r.Intn(6) {
	case 0:
		k := uint(r.Intn(65))
		if k == 64 {
			return math.MaxUint64
		}
		return uint64(1)<<k - uint64(r.Intn(2))
	case 1:
		return uint64(r.Intn(300))
	case 2:
		return uint64(int64(-r.Intn(300)))
	}
	return r.Uint64()
}

// withField returns a copy of the empty message with field i replaced.
func (s Schema) withField(t string, i int, af AF) AM {
	m := s.Empty(t)
	m.F[i] = af
	return m
}

// leafFor returns a small non-empty message of type t (first scalar fields set).
func (s Schema) leafFor(t string, r *rand.Rand, depth int) AM {
	if depth > 2 {
		return s.Empty(t)
	}
	return s.Random(t, r, depth+1, 3)
}

// SingleFieldValues enumerates messages of type t with exactly one field set to each boundary value.
func (s Schema) SingleFieldValues(t string, r *rand.Rand) []AM {
	out := []AM{s.Empty(t)}
	for i, fd := range s.must(t) {
		base := emptyField(fd)
		switch fd.C {
		case "map":
			kz := fd.Mk != "message"
			_ = kz
			keys := Boundary(fd.Mk, true)
			mkVal := func(j int) AV {
				if fd.Mv == "message" {
					if j%2 == 0 {
						return mv(s.Empty(fd.Mt))
					}
					return mv(s.leafFor(fd.Mt, r, 1))
				}
				vs := Boundary(fd.Mv, true)
				return vs[j%len(vs)]
			}
			nv := len(Boundary(fd.Mv, true))
			if fd.Mv == "message" {
				nv = 2
			}
			n := len(keys)
			if nv > n {
				n = nv
			}
			for j := 0; j < n; j++ {
				af := base
				af.P = 1
				af.KV = []AKV{{K: keys[j%len(keys)], V: mkVal(j)}}
				out = append(out, s.withField(t, i, af))
			}
			// two and three entries
			af := base
			af.P = 1
			af.KV = []AKV{{K: keys[0], V: mkVal(0)}, {K: keys[len(keys)-1], V: mkVal(1)}}
			if !sameInts(af.KV[0].K.S, af.KV[1].K.S) {
				sortKV(af.KV)
				out = append(out, s.withField(t, i, af))
			}
		case "rep":
			var elems []AV
			if fd.K == "message" {
				elems = []AV{mv(s.Empty(fd.T)), mv(s.leafFor(fd.T, r, 1))}
			} else {
				elems = Boundary(fd.K, true)
			}
			for _, e := range elems {
				af := base
				af.P = 1
				af.L = []AV{e}
				out = append(out, s.withField(t, i, af))
			}
			for _, n := range []int{2, 3, 31, 32, 33} {
				af := base
				af.P = 1
				for j := 0; j < n; j++ {
					af.L = append(af.L, elems[(j*7+n)%len(elems)])
				}
				out = append(out, s.withField(t, i, af))
			}
			// packed payloads of exactly 127 and 128 bytes - where the length prefix grows by a byte - from elements of each
			// encoded size that divides 128 (1-byte and 2-byte varints, 8-byte fixed; 4-byte fixed are the 31/32/33 above)
			if fd.K != "message" && fd.K != "string" && fd.K != "bytes" {
				bySize := map[int]AV{}
				for _, e := range elems {
					if sz := len(appendScalar(nil, fd.K, e)); sz > 0 {
						if _, ok := bySize[sz]; !ok {
							bySize[sz] = e
						}
					}
				}
				for _, plan := range [][2]int{{1, 127}, {1, 128}, {2, 64}, {8, 16}} {
					e, ok := bySize[plan[0]]
					if !ok {
						continue
					}
					af := base
					af.P = 1
					for j := 0; j < plan[1]; j++ {
						af.L = append(af.L, e)
					}
					out = append(out, s.withField(t, i, af))
				}
			}
		default:
			if fd.K == "message" {
				for _, sub := range []AM{s.Empty(fd.T), s.leafFor(fd.T, r, 1)} {
					af := base
					af.P = 1
					af.V = mv(sub)
					out = append(out, s.withField(t, i, af))
				}
				continue
			}
			for _, v := range Boundary(fd.K, fd.C != "imp") {
				af := base
				af.P = 1
				af.V = v
				out = append(out, s.withField(t, i, af))
			}
		}
	}
	return out
}

// Random returns a random message of type t; maxFields bounds how many fields are set.
func (s Schema) Random(t string, r *rand.Rand, depth, maxFields int) AM {
	m := s.Empty(t)
	fds := s.must(t)
	if len(fds) == 0 {
		return m
	}
	n := r.Intn(maxFields + 1)
	usedOneof := map[string]bool{}
	for c := 0; c < n; c++ {
		i := r.Intn(len(fds))
		fd := fds[i]
		if m.F[i].P == 1 {
			continue
		}
		if fd.O != "" {
			if usedOneof[fd.O] {
				continue
			}
			usedOneof[fd.O] = true
		}
		af := emptyField(fd)
		af.P = 1
		switch fd.C {
		case "map":
			for j, k := 0, 1+r.Intn(3); j < k; j++ {
				e := AKV{K: rndScalar(r, fd.Mk, true)}
				if fd.Mv == "message" {
					if depth < 3 {
						e.V = mv(s.Random(fd.Mt, r, depth+1, 3))
					} else {
						e.V = mv(s.Empty(fd.Mt))
					}
				} else {
					e.V = rndScalar(r, fd.Mv, true)
				}
				dup := false
				for _, x := range af.KV {
					if sameInts(x.K.S, e.K.S) {
						dup = true
					}
				}
				if !dup {
					af.KV = append(af.KV, e)
				}
			}
			sortKV(af.KV)
		case "rep":
			for j, k := 0, 1+r.Intn(4); j < k; j++ {
				if fd.K == "message" {
					if depth < 3 {
						af.L = append(af.L, mv(s.Random(fd.T, r, depth+1, 3)))
					} else {
						af.L = append(af.L, mv(s.Empty(fd.T)))
					}
				} else {
					af.L = append(af.L, rndScalar(r, fd.K, true))
				}
			}
		default:
			if fd.K == "message" {
				if depth < 3 {
					af.V = mv(s.Random(fd.T, r, depth+1, 3))
				} else {
					af.V = mv(s.Empty(fd.T))
				}
			} else {
				af.V = rndScalar(r, fd.K, fd.C != "imp")
			}
		}
		m.F[i] = af
	}
	return m
}

// WithRequired sets every unset required field (recursively in set sub-messages) to a default value.
func (s Schema) WithRequired(t string, m AM, r *rand.Rand) AM {
	for i, fd := range s.must(t) {
		af := m.F[i]
		if fd.C == "req" && af.P == 0 {
			af.P = 1
			if fd.K == "message" {
				af.V = mv(s.WithRequired(fd.T, s.Empty(fd.T), r))
			} else {
				af.V = rndScalar(r, fd.K, true)
			}
		}
		if fd.K == "message" && fd.C != "rep" && fd.C != "map" && af.P == 1 {
			af.V = mv(s.WithRequired(fd.T, af.V.M[0], r))
		}
		if fd.K == "message" && fd.C == "rep" {
			for j := range af.L {
				af.L[j] = mv(s.WithRequired(fd.T, af.L[j].M[0], r))
			}
		}
		if fd.C == "map" && fd.Mv == "message" {
			for j := range af.KV {
				af.KV[j].V = mv(s.WithRequired(fd.Mt, af.KV[j].V.M[0], r))
			}
		}
		m.F[i] = af
	}
	return m
}

// ---------------------------------------------------------------------------------------------
// an independent reference encoder (protowire), with knobs that produce legal encoding variants

// EncOpts selects among the encodings a conforming writer may legally produce.
type EncOpts struct {
	R           *rand.Rand // nil = canonical encoding in field-number order
	Permute     bool       // shuffle the field order
	FlipPacking bool       // encode packable repeated fields with the opposite packing, or split runs
	Duplicates  bool       // precede singular scalars with an overwritten occurrence; split singular messages in two
	MapShapes   bool       // map entries value-first, or with zero key / zero value omitted
	Unknown     bool       // interleave unknown fields
	LongKeys    bool       // encode some keys in one byte more than necessary
	Sandwich    bool       // an unknown field before every field and one at the end, whatever R (which may be nil)
	SplitRuns   bool       // every packable repeated field with two or more elements as: one unpacked element, a packed run, a second packed run
	Split       *bool      // set when a singular message field was actually split over two occurrences
}

func wtOfKind(k string) protowire.Type {
	switch k {
	case "bool", "int32", "int64", "uint32", "uint64", "sint32", "sint64", "enum":
		return protowire.VarintType
	case "fixed32", "sfixed32", "float":
		return protowire.Fixed32Type
	case "fixed64", "sfixed64", "double":
		return protowire.Fixed64Type
	}
	return protowire.BytesType
}

func appendScalar(b []byte, k string, a AV) []byte {
	switch k {
	case "sint32", "sint64":
		return protowire.AppendVarint(b, protowire.EncodeZigZag(int64(tr.FromWord(a.S))))
	case "bool", "int32", "int64", "uint32", "uint64", "enum":
		return protowire.AppendVarint(b, tr.FromWord(a.S))
	case "fixed32", "sfixed32", "float":
		return protowire.AppendFixed32(b, le32(a.S))
	case "fixed64", "sfixed64", "double":
		return protowire.AppendFixed64(b, le64(a.S))
	}
	return protowire.AppendBytes(b, tr.ToBytes(a.S))
}

// tag writes a field key; with LongKeys now and then in one byte more than necessary (well-formed, never produced by encoders)
func (o EncOpts) tag(b []byte, n protowire.Number, t protowire.Type) []byte {
	start := len(b)
	b = protowire.AppendTag(b, n, t)
	if o.LongKeys && o.R != nil && o.R.Intn(4) == 0 && len(b)-start < 5 {
		b[len(b)-1] |= 0x80
		b = append(b, 0x00)
	}
	return b
}

func packableKind(k string) bool { return k != "string" && k != "bytes" && k != "message" }

// unknownField renders a random well-formed field whose number is not in use by type t.
func (s Schema) unknownField(t string, r *rand.Rand) []byte {
	for {
		// includes the numbers at which the tag key grows by a byte (16, 2048, 262144, 33554432) and their predecessors
		nums := []int{7, 18, 19, 50, 999, 70000, 1 << 27, 1<<29 - 1, 15, 16, 2047, 2048, 262143, 262144, 33554431, 33554432}
		n := nums[r.Intn(len(nums))]
		if _, i := s.Field(t, n); i >= 0 {
			continue
		}
		var b []byte
		switch r.Intn(4) {
		case 0:
			b = protowire.AppendTag(b, protowire.Number(n), protowire.VarintType)
			b = protowire.AppendVarint(b, rnd64(r))
		case 1:
			b = protowire.AppendTag(b, protowire.Number(n), protowire.Fixed32Type)
			b = protowire.AppendFixed32(b, r.Uint32())
		case 2:
			b = protowire.AppendTag(b, protowire.Number(n), protowire.Fixed64Type)
			b = protowire.AppendFixed64(b, r.Uint64())
		default:
			b = protowire.AppendTag(b, protowire.Number(n), protowire.BytesType)
			p := make([]byte, r.Intn(5))
			r.Read(p)
			b = protowire.AppendBytes(b, p)
		}
		return b
	}
}

// generatedTypes: full names of the message types with generated fast-marshal code (nil: not known, all of them)
var generatedTypes map[string]bool

// padKey re-encodes the key of the single field f in one byte more than necessary (well-formed, never produced by an encoder).
func padKey(f []byte) []byte {
	_, n := protowire.ConsumeVarint(f)
	if n <= 0 || n >= 5 {
		return f
	}
	out := append([]byte{}, f[:n]...)
	out[n-1] |= 0x80
	out = append(out, 0x00)
	return append(out, f[n:]...)
}

// WithUnknowns returns a copy of m with unknown fields added at the top level and, with some probability, inside the messages
// nested in it (singular, repeated, map values, oneof members): what Unmarshal of newer-schema data leaves behind.
func (s Schema) WithUnknowns(t string, m AM, r *rand.Rand, depth int) AM {
	c := cloneAM(m)
	s.addUnknowns(t, &c, r, depth, true)
	return c
}

func (s Schema) addUnknowns(t string, m *AM, r *rand.Rand, depth int, force bool) {
	if force || r.Intn(2) == 0 {
		for k := 1 + r.Intn(2); k > 0; k-- {
			m.U = append(m.U, tr.Bytes(s.unknownField(t, r))...)
		}
	}
	if depth > 3 {
		return
	}
	for i, fd := range s.must(t) {
		f := &m.F[i]
		switch {
		case fd.K == "message" && fd.C != "rep" && fd.C != "map":
			if f.P == 1 && len(f.V.M) == 1 {
				s.addUnknowns(fd.T, &f.V.M[0], r, depth+1, false)
			}
		case fd.K == "message" && fd.C == "rep":
			for j := range f.L {
				if len(f.L[j].M) == 1 {
					s.addUnknowns(fd.T, &f.L[j].M[0], r, depth+1, false)
				}
			}
		case fd.C == "map" && fd.Mv == "message":
			for j := range f.KV {
				if len(f.KV[j].V.M) == 1 {
					s.addUnknowns(fd.Mt, &f.KV[j].V.M[0], r, depth+1, false)
				}
			}
		}
	}
}

// Encode renders m.  With o.R == nil it is the canonical encoding (fields in schema order, packing as
// declared, map entries key then value with both always present, unknown bytes last).
func (s Schema) Encode(t string, m AM, o EncOpts) []byte {
	var chunks [][]byte
	r := o.R
	coin := func(on bool) bool { return r != nil && on && r.Intn(2) == 0 }
	for i, fd := range s.must(t) {
		af := m.F[i]
		if af.P == 0 {
			continue
		}
		num := protowire.Number(fd.N)
		switch fd.C {
		case "map":
			for _, e := range af.KV {
				var kb, vb []byte
				if !(coin(o.MapShapes) && isZeroAV(fd.Mk, e.K)) {
					kb = o.tag(nil, 1, wtOfKind(fd.Mk))
					kb = appendScalar(kb, fd.Mk, e.K)
				}
				if fd.Mv == "message" {
					sub := s.Encode(fd.Mt, e.V.M[0], o)
					if !(coin(o.MapShapes) && len(sub) == 0) {
						vb = o.tag(nil, 2, protowire.BytesType)
						vb = protowire.AppendBytes(vb, sub)
					}
				} else if !(coin(o.MapShapes) && isZeroAV(fd.Mv, e.V)) {
					vb = o.tag(nil, 2, wtOfKind(fd.Mv))
					vb = appendScalar(vb, fd.Mv, e.V)
				}
				entry := append(append([]byte{}, kb...), vb...)
				if coin(o.MapShapes) {
					entry = append(append([]byte{}, vb...), kb...)
				}
				c := o.tag(nil, num, protowire.BytesType)
				chunks = append(chunks, protowire.AppendBytes(c, entry))
			}
		case "rep":
			if fd.K == "message" {
				for _, e := range af.L {
					c := o.tag(nil, num, protowire.BytesType)
					chunks = append(chunks, protowire.AppendBytes(c, s.Encode(fd.T, e.M[0], o)))
				}
				continue
			}
			if o.SplitRuns && packableKind(fd.K) && len(af.L) >= 2 {
				// (a writer may split a repeated field over occurrences and mix the two forms: all of them extend the list)
				c := o.tag(nil, num, wtOfKind(fd.K))
				chunks = append(chunks, appendScalar(c, fd.K, af.L[0]))
				rest := af.L[1:]
				cut := (len(rest) + 1) / 2
				for _, part := range [][]AV{rest[:cut], rest[cut:]} {
					if len(part) == 0 {
						continue
					}
					var body []byte
					for _, e := range part {
						body = appendScalar(body, fd.K, e)
					}
					c := o.tag(nil, num, protowire.BytesType)
					chunks = append(chunks, protowire.AppendBytes(c, body))
				}
				continue
			}
			packed := fd.Pk
			if packableKind(fd.K) && coin(o.FlipPacking) {
				packed = !packed
			}
			if !packed || !packableKind(fd.K) {
				for _, e := range af.L {
					c := o.tag(nil, num, wtOfKind(fd.K))
					chunks = append(chunks, appendScalar(c, fd.K, e))
				}
				continue
			}
			// packed: optionally split into two runs (with an unpacked element in between)
			cut := len(af.L)
			if coin(o.FlipPacking) && len(af.L) > 1 {
				cut = 1 + r.Intn(len(af.L)-1)
			}
			for _, part := range [][]AV{af.L[:cut], af.L[cut:]} {
				if len(part) == 0 {
					continue
				}
				var body []byte
				for _, e := range part {
					body = appendScalar(body, fd.K, e)
				}
				c := o.tag(nil, num, protowire.BytesType)
				chunks = append(chunks, protowire.AppendBytes(c, body))
			}
		default:
			if fd.K == "message" {
				sub := af.V.M[0]
				if coin(o.Duplicates) && fd.O == "" {
					// split the sub-message over two occurrences (they merge)
					if o.Split != nil {
						*o.Split = true
					}
					a, b2 := s.Empty(fd.T), s.Empty(fd.T)
					for j := range sub.F {
						if j%2 == 0 {
							a.F[j] = sub.F[j]
						} else {
							b2.F[j] = sub.F[j]
						}
					}
					// oneof members must not be split across the halves in a way that changes the result:
					// the later half wins, which is what merge does as well
					b2.U = sub.U
					for _, part := range []AM{a, b2} {
						c := o.tag(nil, num, protowire.BytesType)
						chunks = append(chunks, protowire.AppendBytes(c, s.Encode(fd.T, part, o)))
					}
					continue
				}
				c := o.tag(nil, num, protowire.BytesType)
				chunks = append(chunks, protowire.AppendBytes(c, s.Encode(fd.T, sub, o)))
				continue
			}
			if coin(o.Duplicates) && fd.O == "" {
				c := o.tag(nil, num, wtOfKind(fd.K))
				chunks = append(chunks, appendScalar(c, fd.K, rndScalar(r, fd.K, true)))
				// keep this occurrence before the real one even when permuting: glue them together
				c2 := o.tag(nil, num, wtOfKind(fd.K))
				c2 = appendScalar(c2, fd.K, af.V)
				chunks[len(chunks)-1] = append(chunks[len(chunks)-1], c2...)
				continue
			}
			c := o.tag(nil, num, wtOfKind(fd.K))
			chunks = append(chunks, appendScalar(c, fd.K, af.V))
		}
	}
	if r != nil && o.Permute {
		// any order is a legal encoding (of some message): the oracle is the reference parse of the bytes
		r.Shuffle(len(chunks), func(i, j int) { chunks[i], chunks[j] = chunks[j], chunks[i] })
	}
	var out []byte
	sr := r
	if o.Sandwich && sr == nil {
		sr = rand.New(rand.NewSource(int64(len(chunks))*7919 + 17))
	}
	// unknown fields with over-long keys: with LongKeys every other one; in a sandwich the last one - in messages decoded by generated
	// code only (the runtimes re-encode the keys of the unknown fields they keep, the reference parse does not)
	unk := func(last bool) []byte {
		u := s.unknownField(t, sr)
		pad := (o.LongKeys && sr.Intn(2) == 0) || (o.Sandwich && last)
		if pad && (generatedTypes == nil || generatedTypes[t]) {
			u = padKey(u)
		}
		return u
	}
	for _, c := range chunks {
		if o.Sandwich || (r != nil && o.Unknown && r.Intn(3) == 0) {
			out = append(out, unk(false)...)
		}
		out = append(out, c...)
	}
	if o.Sandwich || (r != nil && o.Unknown && r.Intn(2) == 0) {
		out = append(out, unk(true)...)
	}
	out = append(out, tr.ToBytes(m.U)...)
	return out
}
