package msgdrv

import (
	"fmt"
	"math"
	"reflect"
	"strconv"
	"strings"
	"sync"

	"verif/harness/tr"
)

// Struct-tag based walkers for golang/protobuf-style generated structs (gogo, legacy google v1):
// they never call the type's own Marshal/Size/Unmarshal nor any runtime that would delegate to them.

type structInfo struct {
	byNum    map[int]int          // field number -> struct field index
	oneofFld map[string]int       // oneof name -> struct field index (interface)
	wrappers map[int]reflect.Type // field number -> wrapper struct type (not pointer)
	unknown  int                  // index of XXX_unrecognized, -1 if none
}

var (
	infoMu sync.Mutex
	infos  = map[reflect.Type]*structInfo{}
)

func tagNum(tag string) int {
	parts := strings.Split(tag, ",")
	if len(parts) < 2 {
		return 0
	}
	n, _ := strconv.Atoi(parts[1])
	return n
}

func infoOf(t reflect.Type) *structInfo {
	infoMu.Lock()
	defer infoMu.Unlock()
	if si, ok := infos[t]; ok {
		return si
	}
	si := &structInfo{byNum: map[int]int{}, oneofFld: map[string]int{}, wrappers: map[int]reflect.Type{}, unknown: -1}
	for i := 0; i < t.NumField(); i++ {
		f := t.Field(i)
		if tag, ok := f.Tag.Lookup("protobuf"); ok {
			si.byNum[tagNum(tag)] = i
		}
		if name, ok := f.Tag.Lookup("protobuf_oneof"); ok {
			si.oneofFld[name] = i
		}
		if f.Name == "XXX_unrecognized" {
			si.unknown = i
		}
	}
	if m, ok := reflect.PtrTo(t).MethodByName("XXX_OneofWrappers"); ok {
		res := m.Func.Call([]reflect.Value{reflect.Zero(reflect.PtrTo(t))})
		ws := res[0].Interface().([]interface{})
		for _, w := range ws {
			wt := reflect.TypeOf(w).Elem()
			if tag, ok := wt.Field(0).Tag.Lookup("protobuf"); ok {
				si.wrappers[tagNum(tag)] = wt
			}
		}
	}
	infos[t] = si
	return si
}

// goScalarAV converts a Go field value (already dereferenced) of kind k to the abstract form.
func goScalarAV(k string, v reflect.Value) AV {
	switch k {
	case "bool":
		if v.Bool() {
			return sv(tr.Word(1))
		}
		return sv(tr.Word(0))
	case "int32", "sint32", "int64", "sint64", "enum":
		return sv(tr.Word(uint64(v.Int())))
	case "uint32", "uint64":
		return sv(tr.Word(v.Uint()))
	case "sfixed32":
		return sv(tr.LE32(uint32(int32(v.Int()))))
	case "fixed32":
		return sv(tr.LE32(uint32(v.Uint())))
	case "sfixed64":
		return sv(tr.LE64(uint64(v.Int())))
	case "fixed64":
		return sv(tr.LE64(v.Uint()))
	case "float":
		return sv(tr.F32(float32(v.Float())))
	case "double":
		return sv(tr.F64(v.Float()))
	case "string":
		return sv(tr.Bytes([]byte(v.String())))
	case "bytes":
		return sv(tr.Bytes(v.Bytes()))
	}
	panic("msgdrv: goScalarAV: unexpected kind " + k)
}

// setGoScalar stores the abstract scalar into v (a settable value of the field's element type).
func setGoScalar(k string, v reflect.Value, a AV) {
	switch k {
	case "bool":
		v.SetBool(tr.FromWord(a.S) != 0)
	case "int32", "sint32", "enum":
		v.SetInt(int64(int32(tr.FromWord(a.S))))
	case "int64", "sint64":
		v.SetInt(int64(tr.FromWord(a.S)))
	case "uint32":
		v.SetUint(uint64(uint32(tr.FromWord(a.S))))
	case "uint64":
		v.SetUint(tr.FromWord(a.S))
	case "sfixed32":
		v.SetInt(int64(int32(le32(a.S))))
	case "fixed32":
		v.SetUint(uint64(le32(a.S)))
	case "sfixed64":
		v.SetInt(int64(le64(a.S)))
	case "fixed64":
		v.SetUint(le64(a.S))
	case "float":
		v.SetFloat(float64(math.Float32frombits(le32(a.S))))
	case "double":
		v.SetFloat(math.Float64frombits(le64(a.S)))
	case "string":
		v.SetString(string(tr.ToBytes(a.S)))
	case "bytes":
		v.SetBytes(tr.ToBytes(a.S))
	default:
		panic("msgdrv: setGoScalar: unexpected kind " + k)
	}
}

func isZeroScalar(k string, v reflect.Value) bool {
	switch k {
	case "float":
		return math.Float32bits(float32(v.Float())) == 0
	case "double":
		return math.Float64bits(v.Float()) == 0
	case "bytes", "string":
		return v.Len() == 0
	}
	return v.IsZero()
}

// ProjectStruct projects a generated struct (pointer) of message type t to the abstract form.
func ProjectStruct(s Schema, t string, msg interface{}) AM {
	return projectStruct(s, t, reflect.ValueOf(msg).Elem())
}

func projectStruct(s Schema, t string, v reflect.Value) AM {
	si := infoOf(v.Type())
	out := AM{F: []AF{}, U: []int{}}
	if si.unknown >= 0 {
		out.U = tr.Bytes(v.Field(si.unknown).Bytes())
	}
	for _, fd := range s.must(t) {
		af := emptyField(fd)
		var fv reflect.Value
		if fd.O != "" {
			iv := v.Field(si.oneofFld[fd.O])
			if iv.IsNil() {
				out.F = append(out.F, af)
				continue
			}
			w := iv.Elem() // pointer to wrapper
			if w.Type().Elem() != si.wrappers[fd.N] {
				out.F = append(out.F, af)
				continue
			}
			fv = w.Elem().Field(0)
			af.P = 1
			if fd.K == "message" {
				if fv.IsNil() {
					// a oneof wrapper holding a nil message: the member is selected, the message empty
					af.V = mv(s.Empty(fd.T))
				} else {
					af.V = mv(projectStruct(s, fd.T, fv.Elem()))
				}
			} else {
				af.V = goScalarAV(fd.K, fv)
			}
			out.F = append(out.F, af)
			continue
		}
		idx, ok := si.byNum[fd.N]
		if !ok {
			panic(fmt.Sprintf("msgdrv: %s has no struct field for number %d", v.Type(), fd.N))
		}
		fv = v.Field(idx)
		switch fd.C {
		case "map":
			for _, k := range fv.MapKeys() {
				e := AKV{K: goScalarAV(fd.Mk, k)}
				val := fv.MapIndex(k)
				if fd.Mv == "message" {
					if val.IsNil() {
						e.V = mv(s.Empty(fd.Mt))
					} else {
						e.V = mv(projectStruct(s, fd.Mt, val.Elem()))
					}
				} else {
					e.V = goScalarAV(fd.Mv, val)
				}
				af.KV = append(af.KV, e)
			}
			sortKV(af.KV)
			if len(af.KV) > 0 {
				af.P = 1
			}
		case "rep":
			for i := 0; i < fv.Len(); i++ {
				if fd.K == "message" {
					if fv.Index(i).IsNil() {
						af.L = append(af.L, mv(s.Empty(fd.T)))
					} else {
						af.L = append(af.L, mv(projectStruct(s, fd.T, fv.Index(i).Elem())))
					}
				} else {
					af.L = append(af.L, goScalarAV(fd.K, fv.Index(i)))
				}
			}
			if fv.Len() > 0 {
				af.P = 1
			}
		default:
			switch {
			case fd.K == "message":
				if !fv.IsNil() {
					af.P = 1
					af.V = mv(projectStruct(s, fd.T, fv.Elem()))
				}
			case fv.Kind() == reflect.Ptr:
				if !fv.IsNil() {
					af.P = 1
					af.V = goScalarAV(fd.K, fv.Elem())
				}
			case fd.K == "bytes" && fd.C != "imp":
				if !fv.IsNil() {
					af.P = 1
					af.V = goScalarAV(fd.K, fv)
				}
			default: // implicit presence
				if !isZeroScalar(fd.K, fv) {
					af.P = 1
					af.V = goScalarAV(fd.K, fv)
				}
			}
		}
		out.F = append(out.F, af)
	}
	return out
}

// BuildStruct creates a new value of struct type rt (not pointer) from the abstract form and returns a pointer to it.
func BuildStruct(s Schema, t string, rt reflect.Type, am AM) interface{} {
	p := reflect.New(rt)
	fillStruct(s, t, p.Elem(), am)
	return p.Interface()
}

func fillStruct(s Schema, t string, v reflect.Value, am AM) {
	si := infoOf(v.Type())
	if si.unknown >= 0 && len(am.U) > 0 {
		v.Field(si.unknown).SetBytes(tr.ToBytes(am.U))
	}
	for i, fd := range s.must(t) {
		af := am.F[i]
		if af.P == 0 {
			continue
		}
		if fd.O != "" {
			wt := si.wrappers[fd.N]
			w := reflect.New(wt)
			fv := w.Elem().Field(0)
			if fd.K == "message" {
				sub := reflect.New(fv.Type().Elem())
				fillStruct(s, fd.T, sub.Elem(), af.V.M[0])
				fv.Set(sub)
			} else {
				setGoScalar(fd.K, fv, af.V)
			}
			v.Field(si.oneofFld[fd.O]).Set(w)
			continue
		}
		fv := v.Field(si.byNum[fd.N])
		switch fd.C {
		case "map":
			mp := reflect.MakeMap(fv.Type())
			for _, e := range af.KV {
				k := reflect.New(fv.Type().Key()).Elem()
				setGoScalar(fd.Mk, k, e.K)
				val := reflect.New(fv.Type().Elem()).Elem()
				if fd.Mv == "message" {
					sub := reflect.New(fv.Type().Elem().Elem())
					fillStruct(s, fd.Mt, sub.Elem(), e.V.M[0])
					val.Set(sub)
				} else {
					setGoScalar(fd.Mv, val, e.V)
				}
				mp.SetMapIndex(k, val)
			}
			fv.Set(mp)
		case "rep":
			sl := reflect.MakeSlice(fv.Type(), len(af.L), len(af.L))
			for j, e := range af.L {
				if fd.K == "message" {
					sub := reflect.New(fv.Type().Elem().Elem())
					fillStruct(s, fd.T, sub.Elem(), e.M[0])
					sl.Index(j).Set(sub)
				} else {
					setGoScalar(fd.K, sl.Index(j), e)
				}
			}
			fv.Set(sl)
		default:
			switch {
			case fd.K == "message":
				sub := reflect.New(fv.Type().Elem())
				fillStruct(s, fd.T, sub.Elem(), af.V.M[0])
				fv.Set(sub)
			case fv.Kind() == reflect.Ptr:
				x := reflect.New(fv.Type().Elem())
				setGoScalar(fd.K, x.Elem(), af.V)
				fv.Set(x)
			case fd.K == "bytes":
				b := tr.ToBytes(af.V.S)
				if b == nil {
					b = []byte{}
				}
				fv.SetBytes(b)
			default:
				setGoScalar(fd.K, fv, af.V)
			}
		}
	}
}
