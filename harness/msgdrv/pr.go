package msgdrv

import (
	"math"

	"google.golang.org/protobuf/reflect/protoreflect"

	"verif/harness/tr"
)

// scalarAV converts a protoreflect scalar value to the abstract representation.
func scalarAV(k protoreflect.Kind, v protoreflect.Value) AV {
	switch k {
	case protoreflect.BoolKind:
		if v.Bool() {
			return sv(tr.Word(1))
		}
		return sv(tr.Word(0))
	case protoreflect.Int32Kind, protoreflect.Sint32Kind, protoreflect.Int64Kind, protoreflect.Sint64Kind:
		return sv(tr.Word(uint64(v.Int())))
	case protoreflect.Uint32Kind, protoreflect.Uint64Kind:
		return sv(tr.Word(v.Uint()))
	case protoreflect.EnumKind:
		return sv(tr.Word(uint64(int64(v.Enum()))))
	case protoreflect.Sfixed32Kind:
		return sv(tr.LE32(uint32(int32(v.Int()))))
	case protoreflect.Fixed32Kind:
		return sv(tr.LE32(uint32(v.Uint())))
	case protoreflect.Sfixed64Kind:
		return sv(tr.LE64(uint64(v.Int())))
	case protoreflect.Fixed64Kind:
		return sv(tr.LE64(v.Uint()))
	case protoreflect.FloatKind:
		return sv(tr.F32(float32(v.Float())))
	case protoreflect.DoubleKind:
		return sv(tr.F64(v.Float()))
	case protoreflect.StringKind:
		return sv(tr.Bytes([]byte(v.String())))
	case protoreflect.BytesKind:
		return sv(tr.Bytes(v.Bytes()))
	}
	panic("msgdrv: scalarAV: unexpected kind " + k.String())
}

func le32(a []int) uint32 {
	return uint32(a[0]) | uint32(a[1])<<8 | uint32(a[2])<<16 | uint32(a[3])<<24
}
func le64(a []int) uint64 {
	var v uint64
	for i := 0; i < 8; i++ {
		v |= uint64(a[i]) << (8 * uint(i))
	}
	return v
}

// prValue converts an abstract scalar to a protoreflect value of kind k.
func prValue(k protoreflect.Kind, a AV) protoreflect.Value {
	switch k {
	case protoreflect.BoolKind:
		return protoreflect.ValueOfBool(tr.FromWord(a.S) != 0)
	case protoreflect.Int32Kind, protoreflect.Sint32Kind:
		return protoreflect.ValueOfInt32(int32(tr.FromWord(a.S)))
	case protoreflect.Int64Kind, protoreflect.Sint64Kind:
		return protoreflect.ValueOfInt64(int64(tr.FromWord(a.S)))
	case protoreflect.Uint32Kind:
		return protoreflect.ValueOfUint32(uint32(tr.FromWord(a.S)))
	case protoreflect.Uint64Kind:
		return protoreflect.ValueOfUint64(tr.FromWord(a.S))
	case protoreflect.EnumKind:
		return protoreflect.ValueOfEnum(protoreflect.EnumNumber(int32(tr.FromWord(a.S))))
	case protoreflect.Sfixed32Kind:
		return protoreflect.ValueOfInt32(int32(le32(a.S)))
	case protoreflect.Fixed32Kind:
		return protoreflect.ValueOfUint32(le32(a.S))
	case protoreflect.Sfixed64Kind:
		return protoreflect.ValueOfInt64(int64(le64(a.S)))
	case protoreflect.Fixed64Kind:
		return protoreflect.ValueOfUint64(le64(a.S))
	case protoreflect.FloatKind:
		return protoreflect.ValueOfFloat32(math.Float32frombits(le32(a.S)))
	case protoreflect.DoubleKind:
		return protoreflect.ValueOfFloat64(math.Float64frombits(le64(a.S)))
	case protoreflect.StringKind:
		return protoreflect.ValueOfString(string(tr.ToBytes(a.S)))
	case protoreflect.BytesKind:
		return protoreflect.ValueOfBytes(tr.ToBytes(a.S))
	}
	panic("msgdrv: prValue: unexpected kind " + k.String())
}

// ProjectPR projects a protoreflect message (generated google-v2 type or dynamicpb) to the abstract form.
func ProjectPR(s Schema, m protoreflect.Message) AM {
	md := m.Descriptor()
	out := AM{F: []AF{}, U: tr.Bytes(m.GetUnknown())}
	for _, fd := range s.must(string(md.FullName())) {
		f := md.Fields().ByNumber(protoreflect.FieldNumber(fd.N))
		af := emptyField(fd)
		switch {
		case f.IsMap():
			mp := m.Get(f).Map()
			mp.Range(func(k protoreflect.MapKey, v protoreflect.Value) bool {
				e := AKV{K: scalarAV(f.MapKey().Kind(), k.Value())}
				if f.MapValue().Message() != nil {
					e.V = mv(ProjectPR(s, v.Message()))
				} else {
					e.V = scalarAV(f.MapValue().Kind(), v)
				}
				af.KV = append(af.KV, e)
				return true
			})
			sortKV(af.KV)
			if len(af.KV) > 0 {
				af.P = 1
			}
		case f.IsList():
			l := m.Get(f).List()
			for i := 0; i < l.Len(); i++ {
				if f.Message() != nil {
					af.L = append(af.L, mv(ProjectPR(s, l.Get(i).Message())))
				} else {
					af.L = append(af.L, scalarAV(f.Kind(), l.Get(i)))
				}
			}
			if l.Len() > 0 {
				af.P = 1
			}
		default:
			if m.Has(f) {
				af.P = 1
				if f.Message() != nil {
					af.V = mv(ProjectPR(s, m.Get(f).Message()))
				} else {
					af.V = scalarAV(f.Kind(), m.Get(f))
				}
			}
		}
		out.F = append(out.F, af)
	}
	return out
}

// FillPR sets the fields of m (a fresh message) from the abstract form.
func FillPR(s Schema, m protoreflect.Message, am AM) {
	md := m.Descriptor()
	fds := s.must(string(md.FullName()))
	for i, fd := range fds {
		af := am.F[i]
		if af.P == 0 {
			continue
		}
		f := md.Fields().ByNumber(protoreflect.FieldNumber(fd.N))
		switch {
		case f.IsMap():
			mp := m.Mutable(f).Map()
			for _, e := range af.KV {
				k := prValue(f.MapKey().Kind(), e.K).MapKey()
				if f.MapValue().Message() != nil {
					v := mp.NewValue()
					FillPR(s, v.Message(), e.V.M[0])
					mp.Set(k, v)
				} else {
					mp.Set(k, prValue(f.MapValue().Kind(), e.V))
				}
			}
		case f.IsList():
			l := m.Mutable(f).List()
			for _, e := range af.L {
				if f.Message() != nil {
					v := l.NewElement()
					FillPR(s, v.Message(), e.M[0])
					l.Append(v)
				} else {
					l.Append(prValue(f.Kind(), e))
				}
			}
		default:
			if f.Message() != nil {
				FillPR(s, m.Mutable(f).Message(), af.V.M[0])
			} else {
				m.Set(f, prValue(f.Kind(), af.V))
			}
		}
	}
	if len(am.U) > 0 {
		m.SetUnknown(tr.ToBytes(am.U))
	}
}
