package msgdrv

import (
	"bytes"
	"encoding/hex"
	"encoding/json"
	"fmt"
	"math"
	"os"
	"reflect"
	"regexp"
	"runtime"
	"sort"
	"strconv"
	"strings"
	"sync"
	"unsafe"

	"github.com/CrowdStrike/csproto"
	gogojsonpb "github.com/gogo/protobuf/jsonpb"
	gogoproto "github.com/gogo/protobuf/proto"
	gogodesc "github.com/gogo/protobuf/protoc-gen-gogo/descriptor"
	"github.com/golang/protobuf/jsonpb"
	protov1 "github.com/golang/protobuf/proto"
	"google.golang.org/protobuf/encoding/protojson"
	"google.golang.org/protobuf/encoding/prototext"
	"google.golang.org/protobuf/encoding/protowire"
	"google.golang.org/protobuf/proto"
	"google.golang.org/protobuf/reflect/protodesc"
	"google.golang.org/protobuf/reflect/protoreflect"
	"google.golang.org/protobuf/reflect/protoregistry"
	"google.golang.org/protobuf/types/descriptorpb"
	"google.golang.org/protobuf/types/dynamicpb"
	"google.golang.org/protobuf/types/known/durationpb"
	"google.golang.org/protobuf/types/known/structpb"
	"google.golang.org/protobuf/types/known/timestamppb"
	"google.golang.org/protobuf/types/known/wrapperspb"
)

// DEv is the uniform event record of the dispatch / extension / JSON traces (spec/TraceDispatch.tla).
type DEv struct {
	C    string `json:"c"`
	Op   any    `json:"op"`
	Fl   string `json:"fl"`
	Key  string `json:"key"`
	St   string `json:"st"`
	Cls  string `json:"cls"`
	Same int    `json:"same"`
	X1   int    `json:"x1"`
	X2   int    `json:"x2"`
	Szok int    `json:"szok"`
	Errc int    `json:"errc"`
	Stab int    `json:"stab"` // results returned by earlier calls are still intact after this call
	Mto  int    `json:"mto"`  // extval: MarshalTo filled exactly Size() bytes of a poisoned buffer, equal to Marshal's output
	// extensions
	Has       []int  `json:"has"`
	Rthas     []int  `json:"rthas"`
	Getv      []int  `json:"getv"`
	Getsame   []int  `json:"getsame"`
	Inb       []int  `json:"inb"`
	Rng       []int  `json:"rng"`
	Fnum      int    `json:"fnum"`
	Has0      int    `json:"has0"`
	Geterr    int    `json:"geterr"`
	Seterr    int    `json:"seterr"`
	Unchanged int    `json:"unchanged"`
	Mapping   string `json:"mapping"`
	Late      []int  `json:"late"` // the late-bound slot: has, runtime's has, in marshaled bytes (-1 unknown), visited by Range, value id Get returned (-1: no Get), Get agrees with the runtime's
	// json
	Dir          string `json:"dir"`
	Nilmsg       int    `json:"nilmsg"`
	Outnil       int    `json:"outnil"`
	Valid        int    `json:"valid"`
	Rt1          int    `json:"rt1"`
	Rt2          int    `json:"rt2"`
	Hasenum      int    `json:"hasenum"`
	Enumasnum    int    `json:"enumasnum"`
	Enumnums     int    `json:"enumnums"`
	Haszero      int    `json:"haszero"`
	Zeroemitted  int    `json:"zeroemitted"`
	Emitzero     int    `json:"emitzero"`
	Indent       int    `json:"indent"`
	Nonempty     int    `json:"nonempty"`
	Multiline    int    `json:"multiline"`
	Prefixok     int    `json:"prefixok"`
	Unkkey       int    `json:"unkkey"`
	Allowunk     int    `json:"allowunk"`
	Missreq      int    `json:"missreq"`
	Allowpartial int    `json:"allowpartial"`
	Isv2         int    `json:"isv2"`
	Eq           int    `json:"eq"`
	Note         string `json:"note"`
	Raw          string `json:"raw"`
}

func (e *DEv) norm() {
	if e.Op == nil {
		e.Op = ""
	}
	for _, p := range []*[]int{&e.Has, &e.Rthas, &e.Getv, &e.Getsame, &e.Inb, &e.Rng, &e.Late} {
		if *p == nil {
			*p = []int{}
		}
	}
	if len(e.Note) > 300 {
		e.Note = e.Note[:300]
	}
}

// retained results of byte-returning calls: what a caller still holds must not change when the API is used again
type retained struct{ live, snap []byte }

var retainedOut []retained

// retain reports whether every result handed out earlier is still intact, then keeps out as well.
func retain(out []byte) int {
	ok := 1
	for _, r := range retainedOut {
		if !bytes.Equal(r.live, r.snap) {
			ok = 0
		}
	}
	if len(out) > 0 {
		retainedOut = append(retainedOut, retained{out, append([]byte{}, out...)})
		if len(retainedOut) > 6 {
			retainedOut = retainedOut[1:]
		}
	}
	return ok
}

func (d *Driver) emitD(e *DEv) {
	e.norm()
	d.W.EmitAny(e)
}

func b2i(b bool) int {
	if b {
		return 1
	}
	return 0
}

// flavour name as the specification spells it
func specFlavour(fl string) string {
	switch fl {
	case "gogo":
		return "gogo"
	case "gv1":
		return "googlev1"
	case "gv2":
		return "google"
	}
	return "none"
}

func clsName(t csproto.MessageType) string {
	switch t {
	case csproto.MessageTypeGogo:
		return "gogo"
	case csproto.MessageTypeGoogleV1:
		return "googlev1"
	case csproto.MessageTypeGoogle:
		return "google"
	}
	return "unknown"
}

// rtOps are the owning runtime's own functions for a flavour.
type rtOps struct {
	marshal   func(m interface{}) ([]byte, error)
	unmarshal func(b []byte, m interface{}) error
	equal     func(a, b interface{}) bool
	clone     func(m interface{}) interface{}
	text      func(m interface{}) string
}

func runtimeOf(fl string) rtOps {
	switch fl {
	case "gv2":
		return rtOps{
			marshal:   func(m interface{}) ([]byte, error) { return proto.Marshal(m.(proto.Message)) },
			unmarshal: func(b []byte, m interface{}) error { return proto.Unmarshal(b, m.(proto.Message)) },
			equal:     func(a, b interface{}) bool { return proto.Equal(a.(proto.Message), b.(proto.Message)) },
			clone:     func(m interface{}) interface{} { return proto.Clone(m.(proto.Message)) },
			text:      func(m interface{}) string { return prototext.Format(m.(proto.Message)) },
		}
	case "gv1":
		return rtOps{
			marshal:   func(m interface{}) ([]byte, error) { return protov1.Marshal(m.(protov1.Message)) },
			unmarshal: func(b []byte, m interface{}) error { return protov1.Unmarshal(b, m.(protov1.Message)) },
			equal:     func(a, b interface{}) bool { return protov1.Equal(a.(protov1.Message), b.(protov1.Message)) },
			clone:     func(m interface{}) interface{} { return protov1.Clone(m.(protov1.Message)) },
			text:      func(m interface{}) string { return protov1.MarshalTextString(m.(protov1.Message)) },
		}
	default:
		return rtOps{
			marshal:   func(m interface{}) ([]byte, error) { return gogoproto.Marshal(m.(gogoproto.Message)) },
			unmarshal: func(b []byte, m interface{}) error { return gogoproto.Unmarshal(b, m.(gogoproto.Message)) },
			equal:     func(a, b interface{}) bool { return gogoproto.Equal(a.(gogoproto.Message), b.(gogoproto.Message)) },
			clone:     func(m interface{}) interface{} { return gogoproto.Clone(m.(gogoproto.Message)) },
			text:      func(m interface{}) string { return gogoproto.MarshalTextString(m.(gogoproto.Message)) },
		}
	}
}

// sanitize replaces float values by well-behaved ones (NaN is never equal to itself; -0.0 is a recorded finding of C05)
func (d *Driver) sanitize(t string, am AM) AM {
	for i, fd := range d.S.must(t) {
		af := &am.F[i]
		fix := func(k string, a *AV) {
			switch k {
			case "float":
				*a = sv([]int{0, 0, 192, 63}) // 1.5
			case "double":
				*a = sv([]int{0, 0, 0, 0, 0, 0, 2, 192}) // -2.25
			}
		}
		if fd.C == "map" {
			for j := range af.KV {
				fix(fd.Mv, &af.KV[j].V)
				if fd.Mv == "message" {
					af.KV[j].V = mv(d.sanitize(fd.Mt, af.KV[j].V.M[0]))
				}
			}
			continue
		}
		if fd.K == "message" {
			if af.P == 1 && fd.C != "rep" {
				af.V = mv(d.sanitize(fd.T, af.V.M[0]))
			}
			for j := range af.L {
				af.L[j] = mv(d.sanitize(fd.T, af.L[j].M[0]))
			}
			continue
		}
		if af.P == 1 && fd.C != "rep" {
			fix(fd.K, &af.V)
		}
		for j := range af.L {
			fix(fd.K, &af.L[j])
		}
	}
	return am
}

type plainCase struct {
	fl   string
	name string
	mk   func() interface{}
	zero func() interface{}
	grow func(m interface{}) // changes a NESTED message of m in place so that its encoded size changes (nil: no nested message)
}

func plainCases() []plainCase {
	long := strings.Repeat("abc", 50)
	st, _ := structpb.NewStruct(map[string]interface{}{"k": "v", "n": 1.5, "l": []interface{}{true, nil}})
	return []plainCase{
		{"gv2", "Timestamp", func() interface{} { return &timestamppb.Timestamp{Seconds: 1700000000, Nanos: 5} }, func() interface{} { return &timestamppb.Timestamp{} }, nil},
		{"gv2", "Duration", func() interface{} { return &durationpb.Duration{Seconds: -3} }, func() interface{} { return &durationpb.Duration{} }, nil},
		{"gv2", "Struct", func() interface{} { return proto.Clone(st) }, func() interface{} { return &structpb.Struct{} }, func(m interface{}) {
			l := m.(*structpb.Struct).Fields["l"].GetListValue()
			l.Values = append(l.Values, structpb.NewStringValue(long), structpb.NewNumberValue(7))
		}},
		{"gv2", "StringValue", func() interface{} { return wrapperspb.String(long) }, func() interface{} { return &wrapperspb.StringValue{} }, nil},
		{"gv2", "DescriptorProto", func() interface{} {
			return &descriptorpb.DescriptorProto{Name: proto.String("M"), Field: []*descriptorpb.FieldDescriptorProto{{Name: proto.String("f"), Number: proto.Int32(1)}}}
		}, func() interface{} { return &descriptorpb.DescriptorProto{} }, func(m interface{}) {
			f := m.(*descriptorpb.DescriptorProto).Field[0]
			f.Name, f.TypeName = proto.String(f.GetName()+long), proto.String(f.GetTypeName()+".pkg.T") // longer at every call
		}},
		{"gogo", "DescriptorProto", func() interface{} {
			return &gogodesc.DescriptorProto{Name: gogoproto.String("M"), Field: []*gogodesc.FieldDescriptorProto{{Name: gogoproto.String("f"), Number: gogoproto.Int32(-1)}}}
		}, func() interface{} { return &gogodesc.DescriptorProto{} }, func(m interface{}) {
			f := m.(*gogodesc.DescriptorProto).Field[0]
			f.Name, f.TypeName = gogoproto.String(f.GetName()+long), gogoproto.String(f.GetTypeName()+".pkg.T")
		}},
		{"gogo", "FileDescriptorProto", func() interface{} {
			return &gogodesc.FileDescriptorProto{Name: gogoproto.String(long), Dependency: []string{"a", "", "b"}}
		}, func() interface{} { return &gogodesc.FileDescriptorProto{} }, nil},
	}
}

// dispatchOne records every dispatcher call for one message value.
func (d *Driver) dispatchOne(fl, key string, mk func() interface{}, mkOther func() interface{}, zero func() interface{}, cross interface{}) {
	rt := runtimeOf(fl)
	sf := specFlavour(fl)
	ev := func(op string) *DEv { return &DEv{C: "disp", Op: op, Fl: sf, Key: key} }
	finish := func(e *DEv, err error) {
		if e.St == "" {
			if err != nil {
				e.St = "err"
				e.Note = err.Error()
			} else {
				e.St = "ok"
			}
		}
		func() {
			defer func() { _ = recover() }()
			e.Cls = clsName(csproto.MsgType(mk()))
		}()
		d.emitD(e)
	}
	// MsgType
	e := ev("MsgType")
	finish(e, nil)
	// Marshal / Size
	m := mk()
	e = ev("Marshal")
	var a []byte
	var err error
	guard(&e.St, &e.Note, func() {
		a, err = csproto.Marshal(m)
		e.Stab = retain(a)
		if err == nil {
			fresh := zero()
			if rt.unmarshal(a, fresh) == nil && rt.equal(m, fresh) {
				e.X1 = 1
			}
			e.Szok = b2i(csproto.Size(m) == len(a))
		}
	})
	finish(e, err)
	e = ev("Size")
	guard(&e.St, &e.Note, func() {
		m2 := mk()
		n := csproto.Size(m2)
		b, err2 := csproto.Marshal(m2)
		e.Szok = b2i(err2 == nil && n == len(b))
	})
	finish(e, nil)
	// Unmarshal bytes produced by the owning runtime
	e = ev("Unmarshal")
	err = nil
	guard(&e.St, &e.Note, func() {
		rb, rerr := rt.marshal(mk())
		if rerr != nil {
			err = rerr
			return
		}
		fresh := zero()
		err = csproto.Unmarshal(rb, fresh)
		if err == nil && rt.equal(mk(), fresh) {
			e.X2 = 1
		}
		// into a destination that already holds other content: the owning runtime's Unmarshal starts from a reset message
		dst, rdst := mkOther(), mkOther()
		if err2, rerr2 := csproto.Unmarshal(rb, dst), rt.unmarshal(rb, rdst); (err2 == nil) != (rerr2 == nil) || (err2 == nil && !rt.equal(dst, rdst)) {
			e.X2 = 0
			e.Note += " pre-populated destination differs from the runtime's result"
		}
	})
	finish(e, err)
	// the empty input into a pre-populated destination (and through the gRPC codec): whatever the owning runtime makes of it
	e = ev("UnmarshalEmpty")
	guard(&e.St, &e.Note, func() {
		ok := true
		for _, data := range [][]byte{nil, {}} {
			dst, rdst, gdst := mkOther(), mkOther(), mkOther()
			err1, rerr, gerr := csproto.Unmarshal(data, dst), rt.unmarshal(data, rdst), csproto.GrpcCodec{}.Unmarshal(data, gdst)
			if (err1 == nil) != (rerr == nil) || (gerr == nil) != (rerr == nil) || (rerr == nil && (!rt.equal(dst, rdst) || !rt.equal(gdst, rdst))) {
				ok = false
			}
		}
		e.Same = b2i(ok)
	})
	finish(e, nil)
	// Clone: the runtime's own result, independent of the original
	e = ev("Clone")
	guard(&e.St, &e.Note, func() {
		orig := mk()
		c := csproto.Clone(orig)
		if c == nil {
			e.St = "nil"
			return
		}
		ok := rt.equal(c, rt.clone(orig)) && reflect.ValueOf(c).Pointer() != reflect.ValueOf(orig).Pointer()
		csproto.Reset(c)
		ok = ok && rt.equal(orig, mk())
		e.Same = b2i(ok)
	})
	finish(e, nil)
	// Equal: same value, different value, cross-runtime
	e = ev("Equal")
	guard(&e.St, &e.Note, func() { e.Same = b2i(csproto.Equal(mk(), mk()) == rt.equal(mk(), mk())) })
	finish(e, nil)
	e = ev("EqualDiff")
	guard(&e.St, &e.Note, func() { e.Same = b2i(csproto.Equal(mk(), mkOther()) == rt.equal(mk(), mkOther())) })
	finish(e, nil)
	if cross != nil {
		e = ev("EqualCross")
		guard(&e.St, &e.Note, func() { e.Same = b2i(!csproto.Equal(mk(), cross) && !csproto.Equal(cross, mk())) })
		finish(e, nil)
	}
	// Reset
	e = ev("Reset")
	guard(&e.St, &e.Note, func() {
		x := mk()
		csproto.Reset(x)
		e.Same = b2i(rt.equal(x, zero()))
	})
	finish(e, nil)
	// MarshalText
	e = ev("MarshalText")
	err = nil
	guard(&e.St, &e.Note, func() {
		var s string
		s, err = csproto.MarshalText(mk())
		e.Same = b2i(err == nil && s == rt.text(mk()))
	})
	finish(e, err)
	// a message that implements encoding.TextMarshaler renders itself (result and error)
	e = ev("MarshalTextSelf")
	guard(&e.St, &e.Note, func() {
		s1, err1 := csproto.MarshalText(&textSelf{Inner: mk(), Text: "self:" + key})
		_, err2 := csproto.MarshalText(&textSelf{Inner: mk(), Fail: true})
		e.Same = b2i(err1 == nil && s1 == "self:"+key && err2 == errTextSelf)
	})
	finish(e, nil)
	// gRPC codec
	e = ev("GrpcMarshal")
	err = nil
	guard(&e.St, &e.Note, func() {
		var b []byte
		b, err = csproto.GrpcCodec{}.Marshal(mk())
		e.Stab = retain(b)
		fresh := zero()
		e.Same = b2i(err == nil && rt.unmarshal(b, fresh) == nil && rt.equal(mk(), fresh))
	})
	finish(e, err)
	e = ev("GrpcUnmarshal")
	err = nil
	guard(&e.St, &e.Note, func() {
		rb, _ := rt.marshal(mk())
		fresh := zero()
		err = csproto.GrpcCodec{}.Unmarshal(rb, fresh)
		e.Same = b2i(err == nil && rt.equal(mk(), fresh))
	})
	finish(e, err)
	e = ev("GrpcName")
	e.Same = b2i(csproto.GrpcCodec{}.Name() == "proto")
	finish(e, nil)
}

type notAMessage struct{ X int }

// textSelf wraps a message and renders itself: csproto.MarshalText has to delegate to it
type textSelf struct {
	Inner interface{}
	Text  string
	Fail  bool
}

var errTextSelf = fmt.Errorf("textSelf: refusing")

func (t *textSelf) MarshalText() ([]byte, error) {
	if t.Fail {
		return nil, errTextSelf
	}
	return []byte(t.Text), nil
}

// unsupportedOne records the dispatcher calls for a value no runtime owns.
func (d *Driver) unsupportedOne(name string, v interface{}) {
	ev := func(op string) *DEv { return &DEv{C: "disp", Op: op, Fl: "none", Key: name} }
	finish := func(e *DEv) {
		func() {
			defer func() {
				if r := recover(); r != nil {
					e.Cls = "panic"
				}
			}()
			e.Cls = clsName(csproto.MsgType(v))
		}()
		d.emitD(e)
	}
	e := ev("MsgType")
	guard(&e.St, &e.Note, func() { _ = csproto.MsgType(v) })
	if e.St == "" {
		e.St = "ok"
	}
	finish(e)
	e = ev("Marshal")
	guard(&e.St, &e.Note, func() {
		_, err := csproto.Marshal(v)
		if err != nil {
			e.St = "err"
			e.Errc = b2i(err == csproto.ErrMarshaler)
		} else {
			e.St = "ok"
		}
	})
	finish(e)
	e = ev("GrpcMarshal")
	guard(&e.St, &e.Note, func() {
		_, err := csproto.GrpcCodec{}.Marshal(v)
		if err != nil {
			e.St = "err"
			e.Errc = b2i(err == csproto.ErrMarshaler)
		} else {
			e.St = "ok"
		}
	})
	finish(e)
	for _, op := range []string{"Unmarshal", "GrpcUnmarshal"} {
		e = ev(op)
		guard(&e.St, &e.Note, func() {
			var err error
			if op == "Unmarshal" {
				err = csproto.Unmarshal([]byte{8, 1}, v)
			} else {
				err = csproto.GrpcCodec{}.Unmarshal([]byte{8, 1}, v)
			}
			if err != nil {
				e.St = "err"
				e.Errc = b2i(err == csproto.ErrUnmarshaler)
			} else {
				e.St = "ok"
			}
		})
		finish(e)
	}
	e = ev("Size")
	guard(&e.St, &e.Note, func() {
		if csproto.Size(v) == 0 {
			e.St = "zero"
		} else {
			e.St = "ok"
		}
	})
	finish(e)
	e = ev("Clone")
	guard(&e.St, &e.Note, func() {
		if csproto.Clone(v) == nil {
			e.St = "nil"
		} else {
			e.St = "ok"
		}
	})
	finish(e)
	e = ev("Equal")
	guard(&e.St, &e.Note, func() {
		if !csproto.Equal(v, v) && !csproto.Equal(v, &timestamppb.Timestamp{}) && !csproto.Equal(&timestamppb.Timestamp{}, v) {
			e.St = "false"
		} else {
			e.St = "ok"
		}
	})
	finish(e)
	e = ev("MarshalText")
	guard(&e.St, &e.Note, func() {
		if _, err := csproto.MarshalText(v); err != nil {
			e.St = "err"
		} else {
			e.St = "ok"
		}
	})
	finish(e)
	e = ev("Reset")
	guard(&e.St, &e.Note, func() { csproto.Reset(v) })
	if e.St == "" {
		e.St = "ok"
	}
	finish(e)
	e = ev("GrpcName")
	e.St = "ok"
	e.Same = b2i(csproto.GrpcCodec{}.Name() == "proto")
	finish(e)
}

// FamDispatch: the decision table (C11).
func (d *Driver) FamDispatch(perType, G int) {
	// a message of another runtime for the cross-runtime Equal rows
	crossFor := map[string]interface{}{"gv2": &gogodesc.DescriptorProto{Name: gogoproto.String("M")}, "gogo": &timestamppb.Timestamp{Seconds: 1}, "gv1": &timestamppb.Timestamp{Seconds: 1}}
	for _, ti := range d.Types {
		d.W.NextGroup()
		t := d.full(ti)
		for n := 0; n < perType; n++ {
			am := d.sanitize(t, d.S.WithRequired(t, d.S.Random(t, d.R, 0, 5), d.R))
			other := d.sanitize(t, d.S.WithRequired(t, d.S.Random(t, d.R, 0, 5), d.R))
			if n == 0 {
				am = d.sanitize(t, d.S.WithRequired(t, d.S.Empty(t), d.R))
			}
			ti := ti
			mk := func() interface{} { return d.Build(ti, am) }
			mkOther := func() interface{} { return d.Build(ti, other) }
			d.dispatchOne(ti.Flavour, ti.Key, mk, mkOther, ti.New, crossFor[ti.Flavour])
		}
		d.msgTypeConc(specFlavour(ti.Flavour), ti.Key, ti.New, G)
	}
	for _, pc := range plainCases() {
		d.W.NextGroup()
		pc := pc
		// "other content" for the pre-populated destination rows: the same type carrying an unknown field
		other := func() interface{} {
			m := pc.zero()
			switch x := m.(type) {
			case proto.Message:
				x.ProtoReflect().SetUnknown([]byte{0x98, 0x06, 0x01})
			default:
				if f := reflect.ValueOf(m).Elem().FieldByName("XXX_unrecognized"); f.IsValid() && f.CanSet() {
					f.SetBytes([]byte{0x98, 0x06, 0x01})
				}
			}
			return m
		}
		d.dispatchOne(pc.fl, "plain/"+pc.fl+"/"+pc.name, pc.mk, other, pc.zero, crossFor[pc.fl])
		if pc.grow != nil {
			// a message without fast-marshal code that was sized / marshaled before and then changed in a nested message: the owning
			// runtime recomputes every cached size, so must csproto (plain types only: for fast-marshal types this is C09's finding)
			for fi, first := range []string{"csproto.Marshal", "csproto.Size", "runtime.Marshal", "GrpcCodec.Marshal",
				"csproto.Marshal/direct", "runtime.Marshal/direct", "csproto.Size/direct"} {
				// "/direct": nothing sizes the message between the mutation and csproto.Marshal (a Size call would refresh the
				// runtime's cached sizes and hide a Marshal that trusts them)
				direct := strings.HasSuffix(first, "/direct")
				first = strings.TrimSuffix(first, "/direct")
				d.marshalAfter(pc, []string{first, "grow"}, direct, fmt.Sprintf("plain/%s/%s/%s#%d", pc.fl, pc.name, first, fi))
			}
		}
		d.msgTypeConc(specFlavour(pc.fl), "plain/"+pc.fl+"/"+pc.name, pc.zero, G)
	}
	var nilMsg *timestamppb.Timestamp
	_ = nilMsg
	for name, v := range map[string]interface{}{"nil": nil, "struct-value": notAMessage{1}, "ptr-to-struct": &notAMessage{2}, "int": 42, "string": "x",
		"slice": []byte{1}, "ptr-to-int": new(int), "map": map[string]int{}} {
		d.unsupportedOne(name, v)
	}
}

// msgTypeConc: G goroutines race on the first classification of a type (the cache is emptied through the verif hook).
func (d *Driver) msgTypeConc(sf, key string, mk func() interface{}, G int) {
	for round := 0; round < 3; round++ {
		e := &DEv{C: "disp", Op: "MsgTypeConc", Fl: sf, Key: key, St: "ok", Same: 1}
		// many first uses per recorded event: the window between a cache miss and the store is a few hundred nanoseconds
		for sub := 0; sub < 60; sub++ {
			csproto.VerifResetMsgTypeCache()
			res := make([]csproto.MessageType, G)
			var wg sync.WaitGroup
			start := make(chan struct{})
			for g := 0; g < G; g++ {
				wg.Add(1)
				go func(g int) {
					defer wg.Done()
					m := mk()
					<-start
					if g%2 == 1 && sub%3 == 0 {
						runtime.Gosched()
					}
					res[g] = csproto.MsgType(m)
				}(g)
			}
			close(start)
			wg.Wait()
			for _, r := range res {
				if clsName(r) != sf {
					e.Same = 0
				}
			}
			e.Cls = clsName(res[0])
		}
		d.emitD(e)
	}
}

// ---------------------------------------------------------------------------------------------
// C12: extension scripts

var extKinds = [][3]string{{"int32", "string", "msg"}, {"enum", "bytes", "sint64"}, {"bool", "double", "fixed64"}, {"int64", "float", "uint64"}, {"sint32", "fixed32", "msg"},
	{"int32@d", "string@d", "enum"}}

var extNumber = map[string]int{"int32": 100, "int64": 101, "uint64": 102, "sint32": 103, "sint64": 104, "fixed32": 105, "fixed64": 106, "bool": 107,
	"string": 108, "bytes": 109, "double": 110, "float": 111, "uint32": 112, "sfixed32": 113, "sfixed64": 114, "msg": 120, "enum": 121,
	"int32@2": 150, "string@2": 151, "int64@f": 160, "msg@f": 161, "int32@n": 170, "int32@d": 180, "string@d": 181, "string@m": 182}

// extGoValue builds the Go value SetExtension expects for (kind, value id) on the given flavour.
func (d *Driver) extGoValue(ti TypeInfo, ext interface{}, kind string, id int) interface{} {
	v2 := ti.Flavour == "gv2"
	scalar := func(x interface{}) interface{} {
		if v2 {
			return x
		}
		p := reflect.New(reflect.TypeOf(x))
		p.Elem().Set(reflect.ValueOf(x))
		return p.Interface()
	}
	pick := func(a, b interface{}) interface{} {
		if id%2 == 1 {
			return a
		}
		return b
	}
	if i := strings.IndexByte(kind, '@'); i >= 0 {
		kind = kind[:i] // the same kind declared in another scope
	}
	if id > 2 {
		// value ids 3 and 4: the zero value and an extreme one
		z := id == 3
		zv := func(zero, ext interface{}) interface{} {
			if z {
				return scalar(zero)
			}
			return scalar(ext)
		}
		switch kind {
		case "int32":
			return zv(int32(0), int32(math.MinInt32))
		case "sint32":
			return zv(int32(0), int32(math.MinInt32))
		case "sfixed32":
			return zv(int32(0), int32(math.MinInt32))
		case "int64":
			return zv(int64(0), int64(math.MinInt64))
		case "sint64":
			return zv(int64(0), int64(math.MinInt64))
		case "sfixed64":
			return zv(int64(0), int64(math.MinInt64))
		case "uint32":
			return zv(uint32(0), uint32(math.MaxUint32))
		case "fixed32":
			return zv(uint32(0), uint32(1<<31))
		case "uint64":
			return zv(uint64(0), uint64(1<<63))
		case "fixed64":
			return zv(uint64(0), uint64(1<<63))
		case "bool":
			return zv(false, true)
		case "double":
			return zv(float64(0), math.Inf(-1))
		case "float":
			return zv(float32(0), float32(math.Inf(1)))
		case "string":
			return zv("", strings.Repeat("x", 200))
		case "bytes":
			if z {
				return []byte{}
			}
			return bytes.Repeat([]byte{0xff}, 130)
		}
		id = id - 2 // enum, msg: the two base values again
	}
	switch kind {
	case "int32":
		return scalar(pick(int32(7), int32(-1)))
	case "sint32":
		return scalar(pick(int32(-9), int32(1<<30)))
	case "int64":
		return scalar(pick(int64(-1), int64(5)))
	case "sint64":
		return scalar(pick(int64(-5), int64(1<<40)))
	case "uint64":
		return scalar(pick(uint64(1), ^uint64(0)))
	case "uint32":
		return scalar(pick(uint32(300), ^uint32(0)))
	case "sfixed32":
		return scalar(pick(int32(-3), int32(1<<30)))
	case "sfixed64":
		return scalar(pick(int64(-3), int64(1<<50)))
	case "fixed32":
		return scalar(pick(uint32(3), ^uint32(0)))
	case "fixed64":
		return scalar(pick(uint64(1), ^uint64(0)))
	case "bool":
		return scalar(pick(true, false))
	case "double":
		return scalar(pick(float64(1.5), float64(-2)))
	case "float":
		return scalar(pick(float32(2.5), float32(-1)))
	case "string":
		return scalar(pick("a", ""))
	case "bytes":
		return pick([]byte{1, 2}, []byte{})
	case "enum":
		// the enum's Go type lives in the generated package: take it from the descriptor
		var et reflect.Type
		if v2 {
			xt := ext.(protoreflect.ExtensionType)
			return xt.InterfaceOf(protoreflect.ValueOfEnum(protoreflect.EnumNumber(pick(int32(1), int32(-1)).(int32))))
		}
		et = reflect.TypeOf(reflect.ValueOf(ext).Elem().FieldByName("ExtensionType").Interface()).Elem()
		p := reflect.New(et)
		p.Elem().SetInt(int64(pick(int32(1), int32(-1)).(int32)))
		return p.Interface()
	case "msg":
		if v2 {
			xt := ext.(protoreflect.ExtensionType)
			mv := xt.New().Message()
			if id == 1 {
				mv.Set(mv.Descriptor().Fields().ByNumber(1), protoreflect.ValueOfInt32(1))
			}
			return xt.InterfaceOf(protoreflect.ValueOfMessage(mv))
		}
		mt := reflect.TypeOf(reflect.ValueOf(ext).Elem().FieldByName("ExtensionType").Interface()).Elem()
		p := reflect.New(mt)
		if id == 1 {
			one := int32(1)
			p.Elem().FieldByName("A").Set(reflect.ValueOf(&one))
		}
		return p.Interface()
	}
	panic("extGoValue: " + kind)
}

// canon renders an extension value independent of the flavour's API shape
func canon(fl string, v interface{}) string {
	if v == nil {
		return "<nil>"
	}
	rv := reflect.ValueOf(v)
	if rv.Kind() == reflect.Ptr {
		if rv.IsNil() {
			return "<nilptr>"
		}
		if rv.Elem().Kind() == reflect.Struct {
			rt := runtimeOf(fl)
			b, err := rt.marshal(v)
			if err != nil {
				return "marshal-error"
			}
			return "msg:" + hex.EncodeToString(b)
		}
		rv = rv.Elem()
	}
	switch rv.Kind() {
	case reflect.Slice:
		return "bytes:" + hex.EncodeToString(rv.Bytes())
	case reflect.Int32, reflect.Int64:
		return "n:" + strconv.FormatInt(rv.Int(), 10)
	case reflect.Uint32, reflect.Uint64:
		return "n:" + strconv.FormatUint(rv.Uint(), 10)
	case reflect.Float32, reflect.Float64:
		return "f:" + strconv.FormatFloat(rv.Float(), 'g', -1, 64)
	case reflect.Bool:
		return "b:" + strconv.FormatBool(rv.Bool())
	case reflect.String:
		return "s:" + rv.String()
	}
	return fmt.Sprintf("?%v", v)
}

func rtHas(fl string, m, ext interface{}) bool {
	switch fl {
	case "gv2":
		return proto.HasExtension(m.(proto.Message), ext.(protoreflect.ExtensionType))
	case "gv1":
		return protov1.HasExtension(m.(protov1.Message), ext.(*protov1.ExtensionDesc))
	}
	return gogoproto.HasExtension(m.(gogoproto.Message), ext.(*gogoproto.ExtensionDesc))
}

func rtGet(fl string, m, ext interface{}) (interface{}, error) {
	switch fl {
	case "gv2":
		return proto.GetExtension(m.(proto.Message), ext.(protoreflect.ExtensionType)), nil
	case "gv1":
		return protov1.GetExtension(m.(protov1.Message), ext.(*protov1.ExtensionDesc))
	}
	return gogoproto.GetExtension(m.(gogoproto.Message), ext.(*gogoproto.ExtensionDesc))
}

func fieldNumbersIn(b []byte) map[int]bool {
	out := map[int]bool{}
	for len(b) > 0 {
		num, typ, n := protowire.ConsumeTag(b)
		if n < 0 {
			return out
		}
		b = b[n:]
		m := protowire.ConsumeFieldValue(num, typ, b)
		if m < 0 {
			return out
		}
		b = b[m:]
		out[int(num)] = true
	}
	return out
}

var reScript = regexp.MustCompile(`<<"(set|clear|clearall|arrive|getlate|setlate|clearlate)", (\d+), (\d+)>>`)

// FamExt replays the operation scripts TLC emitted (MCExtensions) on extendable messages of every flavour and slot mapping.
func (d *Driver) FamExt(scriptFile string, maxScripts int) {
	raw, err := os.ReadFile(scriptFile)
	if err != nil {
		fmt.Fprintln(os.Stderr, err)
		os.Exit(2)
	}
	type op struct {
		kind      string
		slot, val int
	}
	var scripts [][]op
	for _, line := range strings.Split(string(raw), "\n") {
		if !strings.Contains(line, "SCRIPT") {
			continue
		}
		var s []op
		for _, m := range reScript.FindAllStringSubmatch(line, -1) {
			a, _ := strconv.Atoi(m[2])
			b, _ := strconv.Atoi(m[3])
			s = append(s, op{m[1], a, b})
		}
		scripts = append(scripts, s)
	}
	var exts []TypeInfo
	for _, ti := range d.Types {
		if ti.Exts != nil {
			exts = append(exts, ti)
		}
	}
	n := 0
	for si, sc := range scripts {
		if maxScripts > 0 && si >= maxScripts {
			break
		}
		usesLate := false
		for _, o := range sc {
			usesLate = usesLate || strings.HasSuffix(o.kind, "late") || o.kind == "arrive"
		}
		for _, ti := range exts {
			if usesLate && ti.Flavour == "gv2" {
				continue // late binding is a feature of the v1-style APIs (Extensions.tla)
			}
			mapping := extKinds[(si+n)%len(extKinds)]
			n++
			if si%200 == 0 {
				d.W.NextGroup()
			}
			m := ti.New()
			var late interface{}
			if ti.Flavour != "gv2" {
				late = lateDesc(ti)
			}
			d.emitD(&DEv{C: "extnew", Fl: specFlavour(ti.Flavour), Key: ti.Key, Mapping: strings.Join(mapping[:], ",")})
			for _, o := range sc {
				e := &DEv{C: "extop", Op: []interface{}{o.kind, o.slot, o.val}, Fl: specFlavour(ti.Flavour), Key: ti.Key, Mapping: strings.Join(mapping[:], ",")}
				lget, lgetsame := -1, 1
				guard(&e.St, &e.Note, func() {
					switch o.kind {
					case "arrive":
						// the message comes off the wire, decoded by its owning runtime, with field 199 = lateValue(id)
						raw := protowire.AppendVarint(protowire.AppendTag([]byte{0x08, 0x07}, 199, protowire.VarintType), uint64(lateValue(o.val)))
						if err := runtimeOf(ti.Flavour).unmarshal(raw, m); err != nil {
							e.St = "harness"
							e.Note = err.Error()
						}
					case "getlate":
						lget = 0
						// the owning runtime's own GetExtension on the same message, before or after csproto's (alternating: the first of
						// the two calls is the one that meets the extension in encoded form)
						var rgot interface{}
						var rerr error
						if si%2 == 1 {
							rgot, rerr = rtGet(ti.Flavour, m, late)
						}
						got, gerr := csproto.GetExtension(m, late)
						if si%2 == 0 {
							rgot, rerr = rtGet(ti.Flavour, m, late)
						}
						lgetsame = b2i((gerr == nil) == (rerr == nil) && (gerr != nil || canon(ti.Flavour, got) == canon(ti.Flavour, rgot)))
						if p, ok := got.(*int32); gerr == nil && ok && p != nil {
							for id := 1; id <= 2; id++ {
								if *p == lateValue(id) {
									lget = id
								}
							}
						}
						if lget == 0 {
							e.Note += fmt.Sprintf(" getlate: %T %v err=%v", got, got, gerr)
						}
					case "setlate":
						v := lateValue(o.val)
						if err := csproto.SetExtension(m, late, &v); err != nil {
							e.St = "err"
							e.Note = err.Error()
						}
					case "clearlate":
						csproto.ClearExtension(m, late)
					case "set":
						x := ti.Exts[mapping[o.slot-1]]
						if err := csproto.SetExtension(m, x, d.extGoValue(ti, x, mapping[o.slot-1], o.val)); err != nil {
							e.St = "err"
							e.Note = err.Error()
						}
					case "clear":
						csproto.ClearExtension(m, ti.Exts[mapping[o.slot-1]])
					case "clearall":
						csproto.ClearAllExtensions(m)
					}
				})
				if e.St == "" {
					e.St = "ok"
				}
				d.observeExt(ti, m, mapping, e)
				e.Late = []int{-1, -1, -1, -1, lget, lgetsame}
				if late != nil {
					d.observeLate(ti, m, late, e)
				}
				d.emitD(e)
			}
		}
	}
	// mismatching descriptor kinds: a message of one runtime with a descriptor of another
	for _, a := range exts {
		for _, b := range exts {
			if a.Flavour == b.Flavour || a.Set != "default" || b.Set != "default" {
				continue
			}
			// (google v1 and v2 share one descriptor TYPE - protoimpl.ExtensionInfo - but a descriptor generated for the other
			// runtime's message type is still not this message's extension)
			m := a.New()
			own := a.Exts["msg"]
			_ = csproto.SetExtension(m, own, d.extGoValue(a, own, "msg", 1))
			safeMarshal := func() (b []byte) {
				defer func() { _ = recover() }()
				b, _ = runtimeOf(a.Flavour).marshal(m)
				return b
			}
			before := safeMarshal()
			e := &DEv{C: "extmis", Fl: specFlavour(a.Flavour), Key: a.Key + " x " + b.Key}
			guard(&e.St, &e.Note, func() {
				foreign := b.Exts["string"]
				e.Has0 = b2i(!csproto.HasExtension(m, foreign))
				_, gerr := csproto.GetExtension(m, foreign)
				e.Geterr = b2i(gerr != nil)
				serr := csproto.SetExtension(m, foreign, d.extGoValue(b, foreign, "string", 1))
				e.Seterr = b2i(serr != nil)
				// the other runtime's descriptor of the very extension that is set (same field number): still not this message's
				same := b.Exts["msg"]
				if csproto.HasExtension(m, same) {
					e.Has0 = 0
				}
				if _, gerr2 := csproto.GetExtension(m, same); gerr2 == nil {
					e.Geterr = 0
				}
				if csproto.SetExtension(m, same, d.extGoValue(b, same, "msg", 2)) == nil {
					e.Seterr = 0
				}
				// ClearExtension is documented to panic on invalid parameters; whatever it does, the message keeps its own extension
				for _, x := range []interface{}{foreign, same} {
					func() {
						defer func() { _ = recover() }()
						csproto.ClearExtension(m, x)
					}()
				}
			})
			if e.St == "" {
				e.St = "ok"
			}
			after := safeMarshal()
			e.Unchanged = b2i(before != nil && bytes.Equal(before, after))
			d.emitD(e)
		}
	}
	// values no runtime owns, with a real descriptor of each flavour: false / error / no-op, ClearExtension panics (documented)
	for _, a := range exts {
		if a.Set != "default" {
			continue
		}
		for name, v := range map[string]interface{}{"struct": &notAMessage{X: 1}, "nil": nil, "int": 42} {
			e := &DEv{C: "extuns", Fl: "none", Key: a.Key + " x " + name}
			guard(&e.St, &e.Note, func() {
				x := a.Exts["string"]
				e.Has0 = b2i(!csproto.HasExtension(v, x))
				_, gerr := csproto.GetExtension(v, x)
				e.Geterr = b2i(gerr != nil)
				e.Seterr = b2i(csproto.SetExtension(v, x, d.extGoValue(a, x, "string", 1)) != nil)
				func() {
					defer func() {
						if recover() != nil {
							e.Same = 0
						}
					}()
					e.Same = 1
					csproto.ClearAllExtensions(v) // documented no-op
				}()
				func() {
					defer func() {
						if recover() != nil {
							e.X1 = 1
						}
					}()
					csproto.ClearExtension(v, x) // documented to panic on invalid parameters
				}()
				calls := 0
				rerr := csproto.RangeExtensions(v, func(interface{}, string, int32) error { calls++; return nil })
				e.Errc = b2i(rerr != nil && calls == 0)
			})
			if e.St == "" {
				e.St = "ok"
			}
			d.emitD(e)
		}
	}
	// late-bound extensions (the v1-API workflow: decode first, present the descriptor later): the message was decoded by its owning
	// runtime while the extension was not registered, so the field is still held in encoded form when the descriptor - hand-made,
	// never registered - is used with it.  Each answer is compared with the owning runtime's own API on an identical second message.
	for _, a := range exts {
		if a.Set != "default" || a.Flavour == "gv2" {
			continue
		}
		for _, op := range []string{"clearall", "clear", "get-clearall", "get-clear"} {
			e := &DEv{C: "extlate", Fl: specFlavour(a.Flavour), Key: a.Key, Op: op}
			guard(&e.St, &e.Note, func() {
				late := lateDesc(a)
				raw := []byte{0x08, 0x07, 0xb8, 0x0c, 0x2a} // field 1 = 7, field 199 (in the extension range, not declared) = 42
				rt := runtimeOf(a.Flavour)
				m, ref := a.New(), a.New()
				if rt.unmarshal(raw, m) != nil || rt.unmarshal(raw, ref) != nil {
					e.St = "harness"
					return
				}
				e.Has = []int{b2i(csproto.HasExtension(m, late))}
				e.Rthas = []int{b2i(rtHas(a.Flavour, ref, late))}
				e.Getsame = []int{1}
				// RangeExtensions visits it (field number 199) exactly when the owning runtime's own enumeration lists it
				e.X1 = 1
				func() {
					defer func() {
						if r := recover(); r != nil {
							e.X1 = 0
							e.Note += " range panic: " + fmt.Sprint(r)
						}
					}()
					mine := false
					rerr := csproto.RangeExtensions(m, func(_ interface{}, _ string, field int32) error {
						mine = mine || field == 199
						return nil
					})
					theirs := false
					if a.Flavour == "gv1" {
						ds, _ := protov1.ExtensionDescs(ref.(protov1.Message))
						for _, x := range ds {
							theirs = theirs || x.Field == 199
						}
					} else {
						ds, _ := gogoproto.ExtensionDescs(ref.(gogoproto.Message))
						for _, x := range ds {
							theirs = theirs || x.Field == 199
						}
					}
					if rerr != nil || mine != theirs {
						e.X1 = 0
						e.Note += fmt.Sprintf(" range: err=%v visited=%v runtime lists=%v", rerr, mine, theirs)
					}
				}()
				if strings.HasPrefix(op, "get-") {
					got, gerr := csproto.GetExtension(m, late)
					rgot, rerr := rtGet(a.Flavour, ref, late)
					e.Getsame[0] = b2i((gerr == nil) == (rerr == nil) && (gerr != nil || canon(a.Flavour, got) == canon(a.Flavour, rgot)))
				}
				if strings.HasSuffix(op, "clearall") {
					csproto.ClearAllExtensions(m)
					if a.Flavour == "gv1" {
						protov1.ClearAllExtensions(ref.(protov1.Message))
					} else {
						gogoproto.ClearAllExtensions(ref.(gogoproto.Message))
					}
				} else {
					csproto.ClearExtension(m, late)
					if a.Flavour == "gv1" {
						protov1.ClearExtension(ref.(protov1.Message), late.(*protov1.ExtensionDesc))
					} else {
						gogoproto.ClearExtension(ref.(gogoproto.Message), late.(*gogoproto.ExtensionDesc))
					}
				}
				e.Has = append(e.Has, b2i(csproto.HasExtension(m, late)))
				e.Rthas = append(e.Rthas, b2i(rtHas(a.Flavour, ref, late)))
				out, err1 := csproto.Marshal(m)
				rout, err2 := rt.marshal(ref)
				if err1 != nil || err2 != nil {
					e.Inb = []int{-1, -1}
					return
				}
				e.Inb = []int{b2i(fieldNumbersIn(out)[199]), b2i(fieldNumbersIn(rout)[199])}
			})
			if e.St == "" {
				e.St = "ok"
			}
			d.emitD(e)
		}
	}
	// ExtensionFieldNumber: a dynamically built extension type (plain protoreflect.ExtensionType) and values that are no descriptor
	{
		e := &DEv{C: "extnum", Fl: "none", Key: "dynamic"}
		guard(&e.St, &e.Note, func() {
			xt := dynExtType(54321)
			n, err := csproto.ExtensionFieldNumber(xt)
			e.Same = b2i(err == nil && n == 54321)
			e.Errc = 1
			for _, junk := range []interface{}{nil, 42, "x", &notAMessage{}} {
				if n, err := csproto.ExtensionFieldNumber(junk); err == nil || n != 0 {
					e.Errc = 0
				}
			}
		})
		if e.St == "" {
			e.St = "ok"
		}
		d.emitD(e)
	}
}

// dynExtType builds an extension of google.protobuf.MessageOptions at run time (no generated descriptor value).
func dynExtType(num int32) protoreflect.ExtensionType {
	fd := &descriptorpb.FileDescriptorProto{
		Name: proto.String("verif_dynext.proto"), Package: proto.String("verif.dynext"), Syntax: proto.String("proto2"),
		Dependency: []string{"google/protobuf/descriptor.proto"},
		Extension: []*descriptorpb.FieldDescriptorProto{{
			Name: proto.String("dyn_opt"), Number: proto.Int32(num), Label: descriptorpb.FieldDescriptorProto_LABEL_OPTIONAL.Enum(),
			Type: descriptorpb.FieldDescriptorProto_TYPE_INT32.Enum(), Extendee: proto.String(".google.protobuf.MessageOptions"),
		}},
	}
	f, err := protodesc.NewFile(fd, protoregistry.GlobalFiles)
	if err != nil {
		panic(err)
	}
	return dynamicpb.NewExtensionType(f.Extensions().Get(0))
}

// FamExtVal: values of proto2 extensions through the generated code (C04 / C05 / C06).  The abstract-message walkers do not
// know extensions, so extendable corpus messages are built with the owning runtime's extension API: every extension alone
// at four values (two ordinary ones, the zero value, an extreme one), and random subsets; ordinary fields set or unset.
//
//	szok : csproto.Size = len(csproto.Marshal)                  mto: MarshalTo fills exactly Size() bytes, same bytes
//	x1   : the owning runtime decodes csproto's bytes to an equal message
//	x2   : csproto.Unmarshal decodes the owning runtime's bytes to an equal message
func (d *Driver) FamExtVal(nrand int, prop string) {
	for _, ti := range d.Types {
		if ti.Exts == nil {
			continue
		}
		d.W.NextGroup()
		rt := runtimeOf(ti.Flavour)
		var kinds []string
		for k := range ti.Exts {
			kinds = append(kinds, k)
		}
		sort.Strings(kinds)
		// call history: the first extension call this process makes for (this message type, each field number) is a probe with the
		// descriptor another runtime generated for the same schema - documented to answer false; what follows must not depend on it
		for _, other := range d.Types {
			if other.Exts == nil || other.Flavour == ti.Flavour {
				continue
			}
			for _, k := range kinds {
				if x, ok := other.Exts[k]; ok {
					func() {
						defer func() { _ = recover() }()
						_ = csproto.HasExtension(ti.New(), x)
					}()
				}
			}
		}
		one := func(sel map[string]int, withFields bool, label string) {
			var setKinds []string
			for _, k := range kinds {
				if sel[k] != 0 {
					setKinds = append(setKinds, fmt.Sprintf("%s=%d", k, sel[k]))
				}
			}
			e := &DEv{C: "extrt", Op: prop, Fl: specFlavour(ti.Flavour), Key: ti.Key, Mapping: strings.Join(setKinds, ","), Raw: label}
			build := func() interface{} {
				m := ti.New()
				if withFields {
					reflect.ValueOf(m).Elem().FieldByName("Id").Set(reflect.ValueOf(proto.Int32(7)))
				}
				for _, k := range kinds {
					if sel[k] != 0 {
						if err := csproto.SetExtension(m, ti.Exts[k], d.extGoValue(ti, ti.Exts[k], k, sel[k])); err != nil {
							panic("set " + k + ": " + err.Error())
						}
					}
				}
				return m
			}
			guard(&e.St, &e.Note, func() {
				// decoding the owning runtime's bytes does not depend on csproto's Marshal
				rb, rerr := rt.marshal(build())
				f2 := ti.New()
				if rerr == nil && csproto.Unmarshal(rb, f2) == nil && rt.equal(build(), f2) {
					e.X2 = 1
				}
				m := build()
				b, err := csproto.Marshal(m)
				if err != nil {
					e.St, e.Note = "err", err.Error()
					return
				}
				e.Szok = b2i(csproto.Size(build()) == len(b))
				// MarshalTo into a poisoned buffer of exactly Size() bytes
				if mt, ok := build().(interface {
					MarshalTo([]byte) error
					Size() int
				}); ok {
					n := mt.Size()
					buf := bytes.Repeat([]byte{0xA5}, n+4)
					if merr := mt.MarshalTo(buf[:n]); merr == nil && bytes.Equal(buf[:n], b) && bytes.Equal(buf[n:], []byte{0xA5, 0xA5, 0xA5, 0xA5}) {
						e.Mto = 1
					}
				} else {
					e.Mto = 1
				}
				f1 := ti.New()
				if rt.unmarshal(b, f1) == nil && rt.equal(build(), f1) {
					e.X1 = 1
				}
				e.St = "ok"
			})
			d.emitD(e)
		}
		if prop == "C08" {
			// mutated encodings of messages with one extension set: the wire-type bits of every key flipped, truncations, an inflated
			// length - the generated extension decoder must not panic and, whenever the owning runtime accepts the bytes too, must
			// produce an equal message (a field of an unexpected wire type is an unknown field for the reference)
			for _, k := range kinds {
				for id := 1; id <= 2; id++ {
					m := ti.New()
					if err := csproto.SetExtension(m, ti.Exts[k], d.extGoValue(ti, ti.Exts[k], k, id)); err != nil {
						continue
					}
					var rb []byte
					var rerr error
					func() {
						defer func() {
							if recover() != nil {
								rerr = fmt.Errorf("the runtime's Marshal panicked (v1-API scalar extension: recorded finding)")
							}
						}()
						rb, rerr = rt.marshal(m)
					}()
					if rerr != nil || len(rb) == 0 {
						continue
					}
					var muts [][]byte
					for _, pos := range keyOffsets(rb, 0, 0) {
						for wt := byte(0); wt < 8; wt++ {
							if wt != rb[pos]&7 {
								mb := append([]byte{}, rb...)
								mb[pos] = mb[pos]&^7 | wt
								muts = append(muts, mb)
							}
						}
					}
					// two-byte keys (extension numbers >= 16): flip the wire type in the first key byte
					if len(rb) > 1 && rb[0] >= 0x80 {
						for wt := byte(0); wt < 8; wt++ {
							if wt != rb[0]&7 {
								mb := append([]byte{}, rb...)
								mb[0] = mb[0]&^7 | wt
								muts = append(muts, mb)
							}
						}
					}
					for cut := 1; cut < len(rb); cut++ {
						muts = append(muts, rb[:cut])
					}
					for mi, mb := range muts {
						e := &DEv{C: "extrt", Op: prop, Fl: specFlavour(ti.Flavour), Key: ti.Key, Mapping: fmt.Sprintf("%s=%d", k, id), Raw: fmt.Sprintf("mutant-%d %x", mi, mb)}
						guard(&e.St, &e.Note, func() {
							f1, f2 := ti.New(), ti.New()
							err1 := csproto.Unmarshal(append([]byte{}, mb...), f1)
							err2 := rt.unmarshal(append([]byte{}, mb...), f2)
							e.X2 = 1
							if err1 == nil && err2 == nil && !rt.equal(f1, f2) {
								e.X2 = 0
							}
							if err1 != nil {
								e.St = "err"
							} else {
								e.St = "ok"
							}
						})
						d.emitD(e)
					}
				}
			}
			continue
		}
		if prop == "C05" {
			d.foreignExt(ti)
		}
		for _, k := range kinds {
			for id := 1; id <= 4; id++ {
				one(map[string]int{k: id}, id%2 == 0, "single")
			}
		}
		all := map[string]int{}
		for _, k := range kinds {
			all[k] = 1
		}
		one(all, true, "all")
		one(map[string]int{}, true, "none")
		for i := 0; i < 10+2*nrand; i++ {
			sel := map[string]int{}
			for _, k := range kinds {
				if d.R.Intn(3) == 0 {
					sel[k] = 1 + d.R.Intn(4)
				}
			}
			one(sel, d.R.Intn(2) == 0, "random")
		}
	}
}

// zeroSizeCache clears the size-cache word of a generated struct.
func zeroSizeCache(msg interface{}) {
	v := reflect.ValueOf(msg).Elem()
	for _, name := range []string{"sizeCache", "XXX_sizecache"} {
		if f := v.FieldByName(name); f.IsValid() {
			*(*int32)(unsafe.Pointer(f.UnsafeAddr())) = 0
		}
	}
}

// observeExt fills the observations of the three slots after a step.
func (d *Driver) observeExt(ti TypeInfo, m interface{}, mapping [3]string, e *DEv) {
	fl := ti.Flavour
	e.Fnum = 1
	var marshaled []byte
	marshalOK := true
	func() {
		defer func() {
			if r := recover(); r != nil {
				marshalOK = false
				e.Note += " marshal panic: " + fmt.Sprint(r)
			}
		}()
		// the object under test is mutated between steps and the generated Size() keeps a cached size across
		// mutations (recorded finding of C09): empty the cache word so that this observation is about extensions only
		zeroSizeCache(m)
		var err error
		marshaled, err = csproto.Marshal(m)
		if err != nil {
			marshalOK = false
			e.Note += " marshal error: " + err.Error()
		}
	}()
	present := fieldNumbersIn(marshaled)
	for s := 0; s < 3; s++ {
		kind := mapping[s]
		x := ti.Exts[kind]
		has, rth, getv, getsame, inb := 0, 0, 0, 0, -1
		func() {
			defer func() {
				if r := recover(); r != nil {
					e.St = "panic"
					e.Note += " observe panic: " + fmt.Sprint(r)
				}
			}()
			has = b2i(csproto.HasExtension(m, x))
			rth = b2i(rtHas(fl, m, x))
			got, gerr := csproto.GetExtension(m, x)
			rgot, rerr := rtGet(fl, m, x)
			if (gerr == nil) == (rerr == nil) && (gerr != nil || canon(fl, got) == canon(fl, rgot)) {
				getsame = 1
			}
			if gerr == nil {
				for id := 1; id <= 2; id++ {
					if canon(fl, got) == canon(fl, d.extGoValue(ti, x, kind, id)) {
						getv = id
					}
				}
			}
			if n, nerr := csproto.ExtensionFieldNumber(x); nerr != nil || n != extNumber[kind] {
				e.Fnum = 0
			}
		}()
		if marshalOK {
			inb = b2i(present[extNumber[kind]])
		}
		e.Has = append(e.Has, has)
		e.Rthas = append(e.Rthas, rth)
		e.Getv = append(e.Getv, getv)
		e.Getsame = append(e.Getsame, getsame)
		e.Inb = append(e.Inb, inb)
	}
	func() {
		defer func() {
			if r := recover(); r != nil {
				e.St = "panic"
				e.Note += " range panic: " + fmt.Sprint(r)
			}
		}()
		_ = csproto.RangeExtensions(m, func(value interface{}, name string, field int32) error {
			for s := 0; s < 3; s++ {
				if extNumber[mapping[s]] == int(field) {
					e.Rng = append(e.Rng, s+1)
					return nil
				}
			}
			if field == 199 {
				return nil // the late-bound slot: observeLate
			}
			e.Rng = append(e.Rng, 99) // an extension outside the mapping
			return nil
		})
	}()
}

func lateValue(id int) int32 {
	if id == 1 {
		return 42
	}
	return 7
}

// observeLate records what the message shows of the late-bound slot (field 199) WITHOUT decoding it: Has (csproto's and the owning
// runtime's), presence in csproto.Marshal's bytes, and whether RangeExtensions visits it.
func (d *Driver) observeLate(ti TypeInfo, m, late interface{}, e *DEv) {
	defer func() {
		if r := recover(); r != nil {
			e.St = "panic"
			e.Note += " late observation panic: " + fmt.Sprint(r)
		}
	}()
	e.Late[0] = b2i(csproto.HasExtension(m, late))
	e.Late[1] = b2i(rtHas(ti.Flavour, m, late))
	func() {
		defer func() { _ = recover() }() // (a marshal panic is already recorded by observeExt: inb = -1)
		zeroSizeCache(m)
		if out, err := csproto.Marshal(m); err == nil {
			e.Late[2] = b2i(fieldNumbersIn(out)[199])
		}
	}()
	e.Late[3] = 0
	_ = csproto.RangeExtensions(m, func(_ interface{}, _ string, field int32) error {
		if field == 199 {
			e.Late[3] = 1
		}
		return nil
	})
}

// ---------------------------------------------------------------------------------------------
// C18: JSON adapters

func rtJSONUnmarshal(fl string, data []byte, m interface{}) error {
	switch fl {
	case "gv2":
		return protojson.Unmarshal(data, m.(proto.Message))
	case "gv1":
		return jsonpb.Unmarshal(bytes.NewReader(data), m.(protov1.Message))
	}
	return gogojsonpb.Unmarshal(bytes.NewReader(data), m.(gogoproto.Message))
}

var indents = []string{"", " ", "\t", "    "}

func lowerCamelJSON(name string) string {
	out := ""
	up := false
	for _, r := range name {
		if r == '_' {
			up = true
			continue
		}
		if up {
			out += strings.ToUpper(string(r))
			up = false
		} else {
			out += string(r)
		}
	}
	return out
}

// FamJSON: marshal option matrix and unmarshal acceptance (C18).
func (d *Driver) FamJSON(perType int) {
	for _, ti := range d.Types {
		if !(strings.HasSuffix(ti.Key, "/Scalars") || strings.HasSuffix(ti.Key, "/Opt") || strings.HasSuffix(ti.Key, "/Oneof") || strings.HasSuffix(ti.Key, "/Maps") ||
			strings.HasSuffix(ti.Key, "/Req1") || strings.HasSuffix(ti.Key, "/Rep") || strings.HasSuffix(ti.Key, "/Tree")) {
			continue
		}
		d.W.NextGroup()
		t := d.full(ti)
		rt := runtimeOf(ti.Flavour)
		fds := d.S.must(t)
		for n := 0; n < perType; n++ {
			am := d.sanitize(t, d.S.WithRequired(t, d.S.Random(t, d.R, 0, 6), d.R))
			if n == 0 {
				am = d.S.WithRequired(t, d.S.Empty(t), d.R)
			}
			// bytes must be valid UTF-8 free of surprises? no: bytes are base64 in JSON; strings are a-z already
			// which enum field is set to a non-zero value / which implicit scalar is zero (absent)
			enumKey, zeroKey := "", ""
			for i, fd := range fds {
				if fd.K == "enum" && fd.C != "rep" && fd.C != "map" && am.F[i].P == 1 && fd.O == "" {
					v := int32(tr64(am.F[i].V.S))
					if v == 1 || v == -1 { // values that have a name in the corpus enums
						enumKey = lowerCamelJSON(fd.Nm)
					}
				}
				if fd.C == "imp" && fd.K == "int32" && am.F[i].P == 0 && zeroKey == "" {
					zeroKey = lowerCamelJSON(fd.Nm)
				}
			}
			for oi := 0; oi < 4*len(indents); oi++ {
				opt, ii := oi&3, oi>>2
				ind := indents[ii]
				enumnums, emitzero := opt&1 != 0, opt&2 != 0
				if n > 0 && (opt+ii+n)%4 != 0 {
					continue // the full options x indent product on the first value of a type, a rotating quarter of it afterwards
				}
				msg := d.Build(ti, am)
				e := &DEv{C: "json", Dir: "marshal", Fl: specFlavour(ti.Flavour), Key: ti.Key, Enumnums: b2i(enumnums), Emitzero: b2i(emitzero), Indent: len(ind)}
				if ind == "\t" {
					e.Indent = 9
				}
				var out []byte
				var err error
				guard(&e.St, &e.Note, func() {
					out, err = csproto.JSONMarshaler(msg, csproto.JSONIndent(ind), csproto.JSONUseEnumNumbers(enumnums), csproto.JSONIncludeZeroValues(emitzero)).MarshalJSON()
				})
				if e.St == "" {
					if err != nil {
						e.St = "err"
						e.Note = err.Error()
					} else {
						e.St = "ok"
					}
				}
				e.Stab = retain(out)
				if e.St == "ok" {
					e.Raw = string(out)
					if len(e.Raw) > 300 {
						e.Raw = e.Raw[:300]
					}
					e.Valid = b2i(json.Valid(out))
					f1 := ti.New()
					if uerr := csproto.JSONUnmarshaler(f1).UnmarshalJSON(out); uerr == nil && rt.equal(msg, f1) {
						e.Rt1 = 1
					}
					f2 := ti.New()
					if uerr := rtJSONUnmarshal(ti.Flavour, out, f2); uerr == nil && rt.equal(msg, f2) {
						e.Rt2 = 1
					}
					var doc map[string]interface{}
					if json.Unmarshal(out, &doc) == nil {
						e.Nonempty = b2i(len(doc) > 0)
						if enumKey != "" {
							if v, ok := doc[enumKey]; ok {
								e.Hasenum = 1
								_, isNum := v.(float64)
								e.Enumasnum = b2i(isNum)
							}
						}
						if zeroKey != "" {
							e.Haszero = 1
							_, present := doc[zeroKey]
							e.Zeroemitted = b2i(present)
						}
					}
					lines := strings.Split(strings.TrimRight(string(out), "\n"), "\n")
					e.Multiline = b2i(len(lines) > 1)
					e.Prefixok = 1
					for i, ln := range lines {
						if i == 0 || i == len(lines)-1 {
							continue
						}
						if ind != "" && ln != "" && !strings.HasPrefix(ln, ind) {
							e.Prefixok = 0
						}
					}
				}
				d.emitD(e)
			}
			// unmarshal acceptance: unknown keys x missing required x options
			msg := d.Build(ti, am)
			base, err := csproto.JSONMarshaler(msg).MarshalJSON()
			if err != nil {
				continue
			}
			var doc map[string]json.RawMessage
			if json.Unmarshal(base, &doc) != nil {
				continue
			}
			reqKey := ""
			for _, fd := range fds {
				if fd.C == "req" {
					reqKey = lowerCamelJSON(fd.Nm)
				}
			}
			for variant := 0; variant < 4; variant++ {
				unk, miss := variant&1 != 0, variant&2 != 0
				if miss && reqKey == "" {
					continue
				}
				dd := map[string]json.RawMessage{}
				for k, v := range doc {
					dd[k] = v
				}
				if unk {
					dd["zzUnknownKey"] = json.RawMessage("1")
				}
				if miss {
					delete(dd, reqKey)
				}
				input, _ := json.Marshal(dd)
				want := d.Build(ti, am)
				if miss {
					// the expected message lacks the required field
					am2 := cloneAM(am)
					for i, fd := range fds {
						if lowerCamelJSON(fd.Nm) == reqKey {
							am2.F[i] = emptyField(fd)
						}
					}
					want = d.Build(ti, am2)
				}
				for o := 0; o < 4; o++ {
					allowUnk, allowPartial := o&1 != 0, o&2 != 0
					e := &DEv{C: "json", Dir: "unmarshal", Fl: specFlavour(ti.Flavour), Key: ti.Key, Unkkey: b2i(unk), Missreq: b2i(miss), Allowunk: b2i(allowUnk),
						Allowpartial: b2i(allowPartial), Isv2: b2i(ti.Flavour == "gv2"), Raw: string(input)}
					if len(e.Raw) > 300 {
						e.Raw = e.Raw[:300]
					}
					dst := ti.New()
					var uerr error
					guard(&e.St, &e.Note, func() {
						uerr = csproto.JSONUnmarshaler(dst, csproto.JSONAllowUnknownFields(allowUnk), csproto.JSONAllowPartialMessages(allowPartial)).UnmarshalJSON(input)
					})
					if e.St == "" {
						if uerr != nil {
							e.St = "err"
							e.Note = uerr.Error()
						} else {
							e.St = "ok"
							e.Eq = b2i(rt.equal(want, dst))
						}
					}
					d.emitD(e)
				}
			}
		}
	}
	// plain (no fast-marshal code) well-known and descriptor types through the same option matrix
	for _, pc := range plainCases() {
		rt := runtimeOf(pc.fl)
		for oi := 0; oi < 4*len(indents); oi++ {
			opt := oi & 3
			ind := indents[oi>>2]
			msg := pc.mk()
			e := &DEv{C: "json", Dir: "marshal", Fl: specFlavour(pc.fl), Key: "plain/" + pc.fl + "/" + pc.name, Enumnums: b2i(opt&1 != 0), Emitzero: b2i(opt&2 != 0), Indent: len(ind)}
			var out []byte
			var err error
			guard(&e.St, &e.Note, func() {
				out, err = csproto.JSONMarshaler(msg, csproto.JSONIndent(ind), csproto.JSONUseEnumNumbers(opt&1 != 0), csproto.JSONIncludeZeroValues(opt&2 != 0)).MarshalJSON()
			})
			if e.St == "" {
				if err != nil {
					e.St, e.Note = "err", err.Error()
				} else {
					e.St = "ok"
				}
			}
			e.Stab = retain(out)
			if e.St == "ok" {
				e.Raw = string(out)
				if len(e.Raw) > 300 {
					e.Raw = e.Raw[:300]
				}
				e.Valid = b2i(json.Valid(out))
				f1 := pc.zero()
				if uerr := csproto.JSONUnmarshaler(f1).UnmarshalJSON(out); uerr == nil && rt.equal(msg, f1) {
					e.Rt1 = 1
				}
				f2 := pc.zero()
				if uerr := rtJSONUnmarshal(pc.fl, out, f2); uerr == nil && rt.equal(msg, f2) {
					e.Rt2 = 1
				}
				lines := strings.Split(strings.TrimRight(string(out), "\n"), "\n")
				e.Multiline = b2i(len(lines) > 1)
				e.Nonempty = b2i(len(lines) > 1 || ind == "")
				e.Prefixok = 1
				for i, ln := range lines {
					if i > 0 && i < len(lines)-1 && ind != "" && ln != "" && !strings.HasPrefix(ln, ind) {
						e.Prefixok = 0
					}
				}
				if ind != "" && len(lines) == 1 {
					e.Nonempty = 0 // a scalar rendering (e.g. a Timestamp is one JSON string): nothing to indent
				}
			}
			d.emitD(e)
		}
	}
	// nil messages and values that are not pointers
	nils := map[string]interface{}{"nil": nil, "typed-nil": (*timestamppb.Timestamp)(nil), "typed-nil-gogo-plain": (*gogodesc.DescriptorProto)(nil),
		// nil pointers of types that bring their own MarshalJSON / UnmarshalJSON: the nil rule comes before the delegation
		"typed-nil-struct": (*structpb.Struct)(nil), "typed-nil-value": (*structpb.Value)(nil), "typed-nil-list": (*structpb.ListValue)(nil)}
	seenFl := map[string]bool{}
	for _, ti := range d.Types {
		if !seenFl[ti.Flavour] && ti.Set == "default" {
			seenFl[ti.Flavour] = true
			// a typed nil pointer of a fast-marshal type of each flavour
			nils["typed-nil-"+ti.Flavour] = reflect.Zero(reflect.TypeOf(ti.New())).Interface()
		}
	}
	for name, v := range nils {
		e := &DEv{C: "json", Dir: "marshal", Fl: "none", Key: name, Nilmsg: 1}
		guard(&e.St, &e.Note, func() {
			out, err := csproto.JSONMarshaler(v).MarshalJSON()
			if err != nil {
				e.St = "err"
			} else {
				e.St = "ok"
				e.Outnil = b2i(len(out) == 0)
			}
		})
		d.emitD(e)
	}
	nils["struct-value"], nils["int"] = notAMessage{1}, 7
	for name, v := range nils {
		// (whatever the text: an object, what MarshalJSON gives for a nil message - nothing -, white space, an options-laden call)
		for ii, in := range [][]byte{[]byte("{}"), nil, {}, []byte(" \n\t"), []byte("null"), []byte(`{"x":1}`)} {
			e := &DEv{C: "json", Dir: "unmarshal", Fl: "none", Key: fmt.Sprintf("%s/input-%d", name, ii), Nilmsg: 1}
			guard(&e.St, &e.Note, func() {
				opts := []csproto.JSONOption{}
				if ii%2 == 1 {
					opts = append(opts, csproto.JSONAllowUnknownFields(true), csproto.JSONAllowPartialMessages(true))
				}
				if err := csproto.JSONUnmarshaler(v, opts...).UnmarshalJSON(in); err != nil {
					e.St = "err"
				} else {
					e.St = "ok"
				}
			})
			d.emitD(e)
		}
	}
	// non-nil values no runtime owns: an error in both directions, never a panic
	for name, v := range map[string]interface{}{"struct-ptr": &notAMessage{X: 1}, "struct-value": notAMessage{1}, "int": 7, "string": "x"} {
		for _, dir := range []string{"marshal", "unmarshal"} {
			if dir == "unmarshal" && name != "struct-ptr" {
				continue // values that are not pointers are judged above
			}
			e := &DEv{C: "json", Dir: dir, Fl: "none", Key: "unsupported/" + name, Nilmsg: 2}
			guard(&e.St, &e.Note, func() {
				var err error
				if dir == "marshal" {
					_, err = csproto.JSONMarshaler(v, csproto.JSONIndent("  ")).MarshalJSON()
				} else {
					err = csproto.JSONUnmarshaler(v, csproto.JSONAllowUnknownFields(true)).UnmarshalJSON([]byte("{}"))
				}
				if err != nil {
					e.St = "err"
				} else {
					e.St = "ok"
				}
			})
			d.emitD(e)
		}
	}
}

func tr64(digits []int) uint64 {
	var v uint64
	for i := 0; i < 10 && i < len(digits); i++ {
		v |= uint64(digits[i]) << (7 * uint(i))
	}
	return v
}

// lateDesc is a descriptor of an int32 extension (field 199) of the extendable message a, built by hand as old generated code does and
// never registered with any runtime.
func lateDesc(a TypeInfo) interface{} {
	extended := reflect.Zero(reflect.TypeOf(a.New())).Interface()
	if a.Flavour == "gv1" {
		return &protov1.ExtensionDesc{ExtendedType: extended.(protov1.Message), ExtensionType: (*int32)(nil), Field: 199,
			Name: "verif.p2ext.late_" + a.Set, Tag: "varint,199,opt,name=late"}
	}
	return &gogoproto.ExtensionDesc{ExtendedType: extended.(gogoproto.Message), ExtensionType: (*int32)(nil), Field: 199,
		Name: "verif.p2ext.late", Tag: "varint,199,opt,name=late"}
}

// marshalAfter applies a history of sizing / marshaling calls and in-place changes of a nested message to a message WITHOUT generated
// fast-marshal code, then records csproto.Marshal of it (operation MarshalMutated): the bytes must decode to the current contents and
// every size csproto reports must be their length, whatever was cached in the message by the calls before.
func (d *Driver) marshalAfter(pc plainCase, pre []string, direct bool, key string) {
	rt := runtimeOf(pc.fl)
	e := &DEv{C: "disp", Op: "MarshalMutated", Fl: specFlavour(pc.fl), Key: key}
	var err error
	guard(&e.St, &e.Note, func() {
		m := pc.mk()
		for _, op := range pre {
			switch op {
			case "csproto.Marshal":
				_, _ = csproto.Marshal(m)
			case "csproto.Size":
				_ = csproto.Size(m)
			case "runtime.Marshal":
				_, _ = rt.marshal(m)
			case "GrpcCodec.Marshal":
				_, _ = csproto.GrpcCodec{}.Marshal(m)
			case "csproto.Clone":
				_ = csproto.Clone(m)
			case "grow":
				pc.grow(m)
			}
		}
		sizeBefore := -1
		if !direct {
			sizeBefore = csproto.Size(m) // asked for before anything re-marshals the message
		}
		var b []byte
		b, err = csproto.Marshal(m)
		if direct {
			sizeBefore = len(b)
		}
		e.Stab = retain(b)
		if err != nil {
			return
		}
		fresh := pc.zero()
		e.X1 = b2i(rt.unmarshal(b, fresh) == nil && rt.equal(m, fresh))
		e.Szok = b2i(csproto.Size(m) == len(b) && sizeBefore == len(b))
		gb, gerr := csproto.GrpcCodec{}.Marshal(m)
		f2 := pc.zero() // (not byte equality: map fields are marshaled in random order)
		e.Same = b2i(gerr == nil && len(gb) == len(b) && rt.unmarshal(gb, f2) == nil && rt.equal(m, f2))
		e.Cls = clsName(csproto.MsgType(m))
	})
	if e.St == "" {
		if err != nil {
			e.St, e.Note = "err", err.Error()
		} else {
			e.St = "ok"
		}
	}
	d.emitD(e)
}

// FamPlainHist (C09, the clause "whether made through csproto ... or through the underlying runtime's own Size/Marshal" for messages that
// have no generated code: marshal.go / sizeof.go delegate to the runtime): random histories of sizing / marshaling / cloning calls and
// in-place growth of a nested message, each ended by csproto.Marshal with or without a Size call right before it.
func (d *Driver) FamPlainHist(n int) {
	ops := []string{"csproto.Marshal", "csproto.Size", "runtime.Marshal", "GrpcCodec.Marshal", "csproto.Clone", "grow", "grow"}
	for _, pc := range plainCases() {
		if pc.grow == nil {
			continue
		}
		d.W.NextGroup()
		k := 0
		// every history of one or two calls followed by the change, then random longer ones
		for _, a := range ops[:5] {
			for _, direct := range []bool{true, false} {
				d.marshalAfter(pc, []string{a, "grow"}, direct, fmt.Sprintf("plainhist/%s/%s#%d", pc.fl, pc.name, k))
				k++
				for _, b := range ops[:5] {
					d.marshalAfter(pc, []string{a, "grow", b, "grow"}, direct, fmt.Sprintf("plainhist/%s/%s#%d", pc.fl, pc.name, k))
					k++
				}
			}
		}
		for i := 0; i < n; i++ {
			var pre []string
			for j, l := 0, 2+d.R.Intn(5); j < l; j++ {
				pre = append(pre, ops[d.R.Intn(len(ops))])
			}
			pre = append(pre, "grow")
			d.marshalAfter(pc, pre, d.R.Intn(2) == 0, fmt.Sprintf("plainhist/%s/%s#%d", pc.fl, pc.name, k))
			k++
		}
	}
}

// foreignExt (C05): an extension of the message that is declared in ANOTHER .proto file than the message, so the generated code of the
// message's file never saw its descriptor (field 199, int32; hand-made / dynamically built, not registered).  It is set through
// csproto.SetExtension; the owning runtime then has to find it in the bytes of csproto.Marshal.
func (d *Driver) foreignExt(ti TypeInfo) {
	rt := runtimeOf(ti.Flavour)
	e := &DEv{C: "extrt", Op: "C05", Fl: specFlavour(ti.Flavour), Key: ti.Key, Mapping: "foreign=1", Raw: "foreign-file"}
	guard(&e.St, &e.Note, func() {
		var x, val interface{}
		if ti.Flavour == "gv2" {
			md := ti.New().(proto.Message).ProtoReflect().Descriptor()
			fd := &descriptorpb.FileDescriptorProto{
				Name: proto.String("verif_foreign_" + ti.Set + ".proto"), Package: proto.String("verif.foreign." + ti.Set), Syntax: proto.String("proto2"),
				Dependency: []string{md.ParentFile().Path()},
				Extension: []*descriptorpb.FieldDescriptorProto{{
					Name: proto.String("foreign"), Number: proto.Int32(199), Label: descriptorpb.FieldDescriptorProto_LABEL_OPTIONAL.Enum(),
					Type: descriptorpb.FieldDescriptorProto_TYPE_INT32.Enum(), Extendee: proto.String("." + string(md.FullName())),
				}},
			}
			f, err := protodesc.NewFile(fd, protoregistry.GlobalFiles)
			if err != nil {
				e.St, e.Note = "harness", err.Error()
				return
			}
			x, val = dynamicpb.NewExtensionType(f.Extensions().Get(0)), int32(42)
		} else {
			v := int32(42)
			x, val = lateDesc(ti), &v
		}
		m := ti.New()
		if err := csproto.SetExtension(m, x, val); err != nil {
			e.St, e.Note = "err", "SetExtension: "+err.Error()
			return
		}
		b, err := csproto.Marshal(m)
		if err != nil {
			e.St, e.Note = "err", err.Error()
			return
		}
		e.Szok = b2i(csproto.Size(m) == len(b))
		e.Mto = 1
		e.X2 = 1
		// (the extension is not registered, so a decoded copy would hold it as an unknown field: look for field 199 = 42 in the bytes, which
		// is what the owning runtime's table-driven Marshal emits for a message without generated methods)
		// (on gogo / legacy v1 the runtime's Marshal of this type IS the generated method, so there is no second opinion to ask)
		f1 := ti.New()
		if rt.unmarshal(b, f1) == nil && varintField(b, 199) == 42 {
			e.X1 = 1
		} else {
			e.Note = fmt.Sprintf("the extension set on the message is not in the %d marshaled bytes %x", len(b), b)
		}
		e.St = "ok"
	})
	d.emitD(e)
}

// varintField returns the value of the last top-level varint field num in b (-1: none).
func varintField(b []byte, num protowire.Number) int64 {
	out := int64(-1)
	for len(b) > 0 {
		n, typ, l := protowire.ConsumeTag(b)
		if l < 0 {
			return out
		}
		b = b[l:]
		if n == num && typ == protowire.VarintType {
			v, vl := protowire.ConsumeVarint(b)
			if vl < 0 {
				return out
			}
			out = int64(v)
		}
		l = protowire.ConsumeFieldValue(n, typ, b)
		if l < 0 {
			return out
		}
		b = b[l:]
	}
	return out
}
