// Package msgdrv drives generated message types (the schema corpus) for the generated-code checks
// and records "gen" traces for spec/TraceGen.tla.  Messages are handled through an abstract form
// (AM) that the TLA+ specification Message.tla computes as well, so that equality is structural.
package msgdrv

import (
	"fmt"
	"sort"

	"google.golang.org/protobuf/reflect/protoreflect"
)

// FD is a field of the schema-as-data (shared with Message.tla).
type FD struct {
	N  int    `json:"n"`
	K  string `json:"k"`  // kind
	C  string `json:"c"`  // opt | req | imp | rep | map
	T  string `json:"t"`  // message type full name when K == "message"
	O  string `json:"o"`  // real oneof group name ("" if none)
	Mk string `json:"mk"` // map key kind
	Mv string `json:"mv"` // map value kind
	Mt string `json:"mt"` // map value message type
	Pk bool   `json:"pk"` // declared packed
	Nm string `json:"nm"` // field name (informational)
}

// Schema maps message full names to their fields in declaration order.
type Schema map[string][]FD

func kindName(k protoreflect.Kind) string {
	switch k {
	case protoreflect.MessageKind, protoreflect.GroupKind:
		return "message"
	case protoreflect.EnumKind:
		return "enum"
	}
	return k.String()
}

// AddMessage adds md and, transitively, every message type its fields reference.
func (s Schema) AddMessage(md protoreflect.MessageDescriptor) {
	name := string(md.FullName())
	if _, ok := s[name]; ok {
		return
	}
	s[name] = nil // guard against recursion
	var fds []FD
	fields := md.Fields()
	for i := 0; i < fields.Len(); i++ {
		f := fields.Get(i)
		fd := FD{N: int(f.Number()), K: kindName(f.Kind()), Nm: string(f.Name()), Pk: f.IsPacked()}
		switch {
		case f.IsMap():
			fd.C = "map"
			fd.K = "map"
			fd.Mk = kindName(f.MapKey().Kind())
			fd.Mv = kindName(f.MapValue().Kind())
			if f.MapValue().Message() != nil {
				fd.Mt = string(f.MapValue().Message().FullName())
				s.AddMessage(f.MapValue().Message())
			}
		case f.IsList():
			fd.C = "rep"
		case f.Cardinality() == protoreflect.Required:
			fd.C = "req"
		case f.HasPresence():
			fd.C = "opt"
		default:
			fd.C = "imp"
		}
		if f.Message() != nil && !f.IsMap() {
			fd.T = string(f.Message().FullName())
			s.AddMessage(f.Message())
		}
		if oo := f.ContainingOneof(); oo != nil && !oo.IsSynthetic() {
			fd.O = string(oo.Name())
		}
		fds = append(fds, fd)
	}
	if fds == nil {
		fds = []FD{}
	}
	s[name] = fds
}

// Names returns the message names in sorted order.
func (s Schema) Names() []string {
	var ns []string
	for n := range s {
		ns = append(ns, n)
	}
	sort.Strings(ns)
	return ns
}

func (s Schema) Field(t string, n int) (FD, int) {
	for i, f := range s[t] {
		if f.N == n {
			return f, i
		}
	}
	return FD{}, -1
}

func (s Schema) must(t string) []FD {
	f, ok := s[t]
	if !ok {
		panic(fmt.Sprintf("msgdrv: no schema for %q", t))
	}
	return f
}

// AV is an abstract value: a scalar (S: base-128 digits of the 64-bit word for varint kinds, the
// little-endian bytes for fixed kinds, the bytes for string/bytes) or a message (M has one element).
type AV struct {
	S []int `json:"s"`
	M []AM  `json:"m"`
}

// AKV is a map entry.
type AKV struct {
	K AV `json:"k"`
	V AV `json:"v"`
}

// AF is the abstract state of one schema field.
type AF struct {
	N  int   `json:"n"`
	P  int   `json:"p"`
	V  AV    `json:"v"`
	L  []AV  `json:"l"`
	KV []AKV `json:"kv"`
}

// AM is an abstract message: one AF per schema field, in schema order, plus the unknown bytes.
type AM struct {
	F []AF  `json:"f"`
	U []int `json:"u"`
}

func zeroAV() AV { return AV{S: []int{}, M: []AM{}} }
func sv(x []int) AV {
	if x == nil {
		x = []int{}
	}
	return AV{S: x, M: []AM{}}
}
func mv(m AM) AV { return AV{S: []int{}, M: []AM{m}} }

func emptyField(fd FD) AF { return AF{N: fd.N, V: zeroAV(), L: []AV{}, KV: []AKV{}} }

// Empty returns the abstract empty message of type t.
func (s Schema) Empty(t string) AM {
	m := AM{U: []int{}}
	for _, fd := range s.must(t) {
		m.F = append(m.F, emptyField(fd))
	}
	if m.F == nil {
		m.F = []AF{}
	}
	return m
}

// seqLess is the canonical order of map keys (length first, then element-wise), as in Message!SeqLess.
func seqLess(a, b []int) bool {
	if len(a) != len(b) {
		return len(a) < len(b)
	}
	for i := range a {
		if a[i] != b[i] {
			return a[i] < b[i]
		}
	}
	return false
}

func sortKV(kv []AKV) {
	sort.SliceStable(kv, func(i, j int) bool { return seqLess(kv[i].K.S, kv[j].K.S) })
}

func sameInts(a, b []int) bool {
	if len(a) != len(b) {
		return false
	}
	for i := range a {
		if a[i] != b[i] {
			return false
		}
	}
	return true
}

// EqualAM is structural equality of abstract messages.
func EqualAM(a, b AM) bool {
	if len(a.F) != len(b.F) || !sameInts(a.U, b.U) {
		return false
	}
	for i := range a.F {
		x, y := a.F[i], b.F[i]
		if x.N != y.N || x.P != y.P || !equalAV(x.V, y.V) || len(x.L) != len(y.L) || len(x.KV) != len(y.KV) {
			return false
		}
		for j := range x.L {
			if !equalAV(x.L[j], y.L[j]) {
				return false
			}
		}
		for j := range x.KV {
			if !equalAV(x.KV[j].K, y.KV[j].K) || !equalAV(x.KV[j].V, y.KV[j].V) {
				return false
			}
		}
	}
	return true
}

func equalAV(a, b AV) bool {
	if !sameInts(a.S, b.S) || len(a.M) != len(b.M) {
		return false
	}
	for i := range a.M {
		if !EqualAM(a.M[i], b.M[i]) {
			return false
		}
	}
	return true
}
