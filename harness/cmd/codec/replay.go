package main

import (
	"encoding/json"
	"fmt"
	"os"

	"github.com/CrowdStrike/csproto"

	"verif/harness/tr"
)

// famReplay re-executes the calls of a stored replay file (events of an earlier run) against the
// current build and emits fresh events for them.
func famReplay(path string) {
	raw, err := os.ReadFile(path)
	if err != nil {
		fmt.Fprintln(os.Stderr, err)
		os.Exit(2)
	}
	var rp struct {
		Events []tr.Ev `json:"events"`
	}
	if err := json.Unmarshal(raw, &rp); err != nil {
		fmt.Fprintln(os.Stderr, err)
		os.Exit(2)
	}
	var d *csproto.Decoder
	var buf []byte
	nest := false
	for i := range rp.Events {
		e := &rp.Events[i]
		switch e.C {
		case "new":
			buf = mkbuf(tr.ToBytes(e.Buf))
			d = newDecoder(buf)
		case "dec":
			if d == nil {
				continue
			}
			if e.Op == "NestedMsg" {
				nest = true
				continue
			}
			if int(d.Mode()) != e.Mode {
				doCall(d, buf, call{op: "SetMode", i1: e.Mode}, false, nil, nil)
			}
			if d.Offset() != e.P {
				doCall(d, buf, call{op: "Seek", i1: e.P, i2: 0}, false, nil, nil)
			}
			doCall(d, buf, call{op: e.Op, fn: e.Fn, wt: e.Wt, i1: e.I1, i2: e.I2}, e.Hx == 1, e.X, e.Xs)
		case "cat":
			// re-walk the buffer
			if buf != nil {
				walkSkip(buf, 0)
				walkSkip(buf, 1)
			}
		case "enc":
			roundTrip(e.K, e.Fn, e.I1 == 1, e.A, e.As, e.Hx == 1)
		case "size":
			switch e.K {
			case "varint":
				w.Emit(&tr.Ev{C: "size", K: "varint", A: e.A, H1: csproto.SizeOfVarint(tr.FromWord(e.A))})
			case "zigzag":
				w.Emit(&tr.Ev{C: "size", K: "zigzag", A: e.A, H1: csproto.SizeOfZigZag(tr.FromWord(e.A))})
			case "tagkey":
				w.Emit(&tr.Ev{C: "size", K: "tagkey", Fn: e.Fn, H1: csproto.SizeOfTagKey(e.Fn)})
			}
		default:
			nest = true
		}
	}
	if nest {
		famNest(true)
	}
}
