package main

import (
	"errors"
	"fmt"
	"reflect"

	"github.com/CrowdStrike/csproto"
	gogoproto "github.com/gogo/protobuf/proto"
	gogodesc "github.com/gogo/protobuf/protoc-gen-gogo/descriptor"
	"google.golang.org/protobuf/encoding/protowire"
	"google.golang.org/protobuf/proto"
	"google.golang.org/protobuf/types/descriptorpb"
	"google.golang.org/protobuf/types/known/durationpb"
	"google.golang.org/protobuf/types/known/structpb"
	"google.golang.org/protobuf/types/known/timestamppb"
	"google.golang.org/protobuf/types/known/wrapperspb"

	"verif/harness/tr"
)

var errMarshal = errors.New("stub marshal failure")

// mtMsg marshals itself into a supplied buffer (csproto.MarshalerTo + Sizer).
type mtMsg struct {
	payload []byte
	fail    bool
}

func (m *mtMsg) Size() int { return len(m.payload) }
func (m *mtMsg) MarshalTo(dest []byte) error {
	if m.fail {
		return errMarshal
	}
	copy(dest, m.payload)
	return nil
}
func (m *mtMsg) Marshal() ([]byte, error) {
	if m.fail {
		return nil, errMarshal
	}
	return append([]byte{}, m.payload...), nil
}
func (m *mtMsg) Unmarshal(b []byte) error { m.payload = append([]byte{}, b...); return nil }

// moMsg only marshals itself to a fresh slice (csproto.Marshaler + Sizer).
type moMsg struct {
	payload []byte
	fail    bool
}

func (m *moMsg) Size() int { return len(m.payload) }
func (m *moMsg) Marshal() ([]byte, error) {
	if m.fail {
		return nil, errMarshal
	}
	return append([]byte{}, m.payload...), nil
}
func (m *moMsg) Unmarshal(b []byte) error { m.payload = append([]byte{}, b...); return nil }

type nestCase struct {
	flavour string
	msg     interface{}
	fresh   func() interface{} // empty message of the same type for decoding
	equal   func(a, b interface{}) bool
	fail    bool
}

// nestExpect: reference encoding taken from a copy, for fixtures whose own cached sizes must not be refreshed before the bridge is
// used (absent: csproto.Marshal of the fixture itself)
var nestExpect = map[interface{}]func() []byte{}

func payloadN(n int) []byte {
	// a well-formed message of exactly n bytes: field 1 (LEN) with n-2 / n-3 bytes of content
	switch {
	case n == 0:
		return []byte{}
	case n == 1:
		return nil // not constructible
	case n < 130:
		b := []byte{0x0a, byte(n - 2)}
		for i := 0; i < n-2; i++ {
			b = append(b, byte('a'+i%26))
		}
		return b
	default:
		b := []byte{0x0a, byte((n-3)&0x7f | 0x80), byte((n - 3) >> 7)}
		for i := 0; i < n-3; i++ {
			b = append(b, byte('a'+i%26))
		}
		return b
	}
}

func nestCases() []nestCase {
	var cs []nestCase
	eqStub := func(a, b interface{}) bool {
		switch x := a.(type) {
		case *mtMsg:
			return string(x.payload) == string(b.(*mtMsg).payload)
		case *moMsg:
			return string(x.payload) == string(b.(*moMsg).payload)
		}
		return false
	}
	for _, n := range []int{0, 2, 3, 127, 128, 129, 300} {
		p := payloadN(n)
		cs = append(cs, nestCase{"marshalto", &mtMsg{payload: p}, func() interface{} { return &mtMsg{} }, eqStub, false})
		cs = append(cs, nestCase{"marshalonly", &moMsg{payload: p}, func() interface{} { return &moMsg{} }, eqStub, false})
	}
	for _, n := range []int{0, 5, 128} {
		cs = append(cs, nestCase{"marshalto", &mtMsg{payload: payloadN(n), fail: true}, nil, nil, true})
		cs = append(cs, nestCase{"marshalonly", &moMsg{payload: payloadN(n), fail: true}, nil, nil, true})
	}
	// a value no runtime knows: csproto.Marshal reports ErrMarshaler, Size is 0
	cs = append(cs, nestCase{"unsupported", &struct{ X int }{X: 1}, nil, nil, true})
	// google v2 proto2 messages with required fields unset: proto.Marshal fails (size 0 and size > 0)
	cs = append(cs, nestCase{"googlev2", &descriptorpb.UninterpretedOption_NamePart{}, nil, nil, true})
	cs = append(cs, nestCase{"googlev2", &descriptorpb.UninterpretedOption{Name: []*descriptorpb.UninterpretedOption_NamePart{{NamePart: proto.String("x")}}}, nil, nil, true})
	eqV2 := func(a, b interface{}) bool { return proto.Equal(a.(proto.Message), b.(proto.Message)) }
	st1, _ := structpb.NewStruct(map[string]interface{}{"k": "v"})
	long := make([]byte, 200)
	for i := range long {
		long[i] = byte('a' + i%26)
	}
	v2 := []proto.Message{
		&timestamppb.Timestamp{}, &timestamppb.Timestamp{Seconds: 1700000000, Nanos: 999999999},
		&durationpb.Duration{Seconds: -5, Nanos: -1}, st1, &structpb.Struct{},
		wrapperspb.String(string(long)), wrapperspb.Bytes([]byte{}), wrapperspb.Int64(-1),
		&descriptorpb.DescriptorProto{Name: proto.String("M"), Field: []*descriptorpb.FieldDescriptorProto{{Name: proto.String("f"), Number: proto.Int32(1)}}},
	}
	for _, m := range v2 {
		m := m
		cs = append(cs, nestCase{"googlev2", m, func() interface{} { return m.ProtoReflect().New().Interface() }, eqV2, false})
	}
	// runtime-owned messages that were sized once and then changed in a nested message: the bridge must not trust a size cached
	// inside the message (the expected bytes come from a clone, so nothing refreshes the caches of the message itself)
	for i := 0; i < 3; i++ {
		st := &descriptorpb.DescriptorProto{Name: proto.String("M"), Field: []*descriptorpb.FieldDescriptorProto{{Name: proto.String("f"), Number: proto.Int32(1)}}}
		switch i {
		case 0:
			_ = csproto.Size(st)
		case 1:
			_, _ = csproto.Marshal(st)
		default:
			_ = proto.Size(st)
		}
		// (no map fields: the comparison with the clone's encoding is byte for byte)
		st.Field[0].Name, st.Field[0].TypeName = proto.String(string(long)), proto.String(".pkg.T")
		m := st
		cs = append(cs, nestCase{"googlev2", m, func() interface{} { return &descriptorpb.DescriptorProto{} }, eqV2, false})
		nestExpect[m] = func() []byte {
			b, _ := proto.MarshalOptions{Deterministic: true}.Marshal(proto.Clone(m))
			return b
		}
	}
	eqGogo := func(a, b interface{}) bool { return gogoproto.Equal(a.(gogoproto.Message), b.(gogoproto.Message)) }
	gg := []gogoproto.Message{
		&gogodesc.DescriptorProto{}, &gogodesc.DescriptorProto{Name: gogoproto.String("M")},
		&gogodesc.FileDescriptorProto{Name: gogoproto.String(string(long)), Dependency: []string{"a", "", "b"}},
		&gogodesc.FieldDescriptorProto{Name: gogoproto.String("f"), Number: gogoproto.Int32(-7)},
	}
	for _, m := range gg {
		m := m
		cs = append(cs, nestCase{"gogo", m, func() interface{} {
			switch m.(type) {
			case *gogodesc.DescriptorProto:
				return &gogodesc.DescriptorProto{}
			case *gogodesc.FileDescriptorProto:
				return &gogodesc.FileDescriptorProto{}
			default:
				return &gogodesc.FieldDescriptorProto{}
			}
		}, eqGogo, false})
	}
	return cs
}

// runtimeBytes marshals m with the owning runtime only (no csproto).
func runtimeBytes(c nestCase) ([]byte, bool) {
	switch c.flavour {
	case "googlev2":
		b, err := proto.MarshalOptions{Deterministic: true}.Marshal(c.msg.(proto.Message))
		return b, err == nil
	case "gogo":
		b, err := gogoproto.Marshal(c.msg.(gogoproto.Message))
		return b, err == nil
	case "marshalto":
		return c.msg.(*mtMsg).payload, true
	case "marshalonly":
		return c.msg.(*moMsg).payload, true
	}
	return nil, false
}

// soil puts an unknown field into a runtime-owned message (false: the value is not one)
func soil(m interface{}) bool {
	switch x := m.(type) {
	case proto.Message:
		x.ProtoReflect().SetUnknown([]byte{0x98, 0x06, 0x01})
		return true
	case gogoproto.Message:
		f := reflect.ValueOf(x).Elem().FieldByName("XXX_unrecognized")
		if f.IsValid() && f.CanSet() {
			f.SetBytes([]byte{0x98, 0x06, 0x01})
			return true
		}
	}
	return false
}

func famNest(thorough bool) {
	cases := nestCases()
	fns := []int{1, 15, 16, 2048, 1<<29 - 1}
	for ci, c := range cases {
		for pos := 0; pos < 3; pos++ { // 0 = first, 1 = middle, 2 = last
			fn := fns[(ci+pos)%len(fns)]
			var mb []byte
			var refErr error
			if c.fail {
				_, refErr = csproto.Marshal(c.msg)
				if refErr == nil {
					fmt.Println("harness: failing fixture marshals fine")
					continue
				}
			}
			if !c.fail {
				var err error
				if exp := nestExpect[c.msg]; exp != nil {
					mb = exp()
				} else {
					mb, err = csproto.Marshal(c.msg)
				}
				if err != nil {
					fmt.Println("harness: csproto.Marshal failed on a fixture:", err)
					continue
				}
				if nestExpect[c.msg] != nil {
					// (nothing may marshal the fixture itself before the bridge is used)
				} else if rb, ok := runtimeBytes(c); ok && string(rb) != string(mb) {
					// csproto.Marshal disagrees with the owning runtime: reported through the event (ref # a)
					w.Emit(&tr.Ev{C: "encn", K: c.flavour, Fn: fn, A: tr.Bytes(mb), Ref: tr.Bytes(rb), Hx: 1, St: "ok", Note: "marshal-differs"})
				}
			}
			pre, post := 0, 0
			if pos >= 1 {
				pre = 3 // a small field before
			}
			if pos == 1 {
				post = 2
			}
			size := pre + csproto.SizeOfTagKey(fn) + csproto.SizeOfVarint(uint64(len(mb))) + len(mb) + post
			if c.fail {
				size += 16
			}
			back := make([]byte, size+16)
			for i := range back {
				back[i] = 0xA5
			}
			buf := back[:size]
			enc := csproto.NewEncoder(buf)
			if pre > 0 {
				enc.EncodeBytes(1, []byte{0x42})
			}
			e := &tr.Ev{C: "encn", K: c.flavour, Fn: fn, A: tr.Bytes(mb), P: enc.VerifOffset(), I2: pos}
			if c.fail {
				e.I1 = 1
			}
			var err error
			func() {
				defer func() {
					if r := recover(); r != nil {
						e.St = "panic"
						e.Note = fmt.Sprint(r)
					}
				}()
				err = enc.EncodeNested(fn, c.msg)
			}()
			if e.St == "" {
				if err != nil {
					e.St = "err"
					if err == errMarshal || (refErr != nil && (errors.Is(err, refErr) || err.Error() == refErr.Error())) {
						e.Same = 1
					}
				} else {
					e.St = "ok"
				}
			}
			e.Off = enc.VerifOffset()
			if e.Off >= e.P && e.Off <= len(buf) {
				e.Out = tr.Bytes(buf[e.P:e.Off])
			}
			w.NextGroup()
			w.Emit(e)
			if e.St != "ok" || c.fail || c.fresh == nil {
				continue
			}
			if post > 0 {
				enc.EncodeBool(2, true)
			}
			// decode it back: DecodeTag, DecodeNested into a fresh message of the same type
			ib := mkbuf(buf[:enc.VerifOffset()])
			d := newDecoder(ib)
			if pre > 0 {
				doCall(d, ib, call{op: "Tag"}, true, []int{1, 2}, nil)
				doCall(d, ib, call{op: "Bytes"}, true, []int{0x42}, nil)
			}
			doCall(d, ib, call{op: "Tag"}, true, []int{fn, 2}, nil)
			ne := &tr.Ev{C: "dec", Op: "NestedMsg", P: d.Offset(), Mode: 0, Hx: 1}
			dst := c.fresh()
			func() {
				defer func() {
					if r := recover(); r != nil {
						ne.St = "panic"
						ne.Note = fmt.Sprint(r)
					}
				}()
				err = d.DecodeNested(dst)
			}()
			if ne.St == "" {
				if err != nil {
					ne.St = "err"
					ne.Note = err.Error()
				} else {
					ne.St = "ok"
					if c.equal(c.msg, dst) {
						ne.Same = 1
					}
				}
			}
			ne.Off = d.Offset()
			w.Emit(ne)
			if post > 0 {
				doCall(d, ib, call{op: "Tag"}, true, []int{2, 0}, nil)
				doCall(d, ib, call{op: "Bool"}, true, tr.Word(1), nil)
			}
			doCall(d, ib, call{op: "More"}, true, []int{0}, nil)
			// the same field decoded into a destination that already holds something (here: an unknown field): the bridge hands the
			// payload - also an EMPTY one - to the owning runtime, whose Unmarshal starts from a reset message
			if dirty := c.fresh(); soil(dirty) {
				d2 := newDecoder(ib)
				if pre > 0 {
					doCall(d2, ib, call{op: "Tag"}, true, []int{1, 2}, nil)
					doCall(d2, ib, call{op: "Bytes"}, true, []int{0x42}, nil)
				}
				doCall(d2, ib, call{op: "Tag"}, true, []int{fn, 2}, nil)
				ne2 := &tr.Ev{C: "dec", Op: "NestedMsg", P: d2.Offset(), Mode: 0, Hx: 1, Note: "pre-populated destination"}
				func() {
					defer func() {
						if r := recover(); r != nil {
							ne2.St = "panic"
							ne2.Note = fmt.Sprint(r)
						}
					}()
					err = d2.DecodeNested(dirty)
				}()
				if ne2.St == "" {
					if err != nil {
						ne2.St, ne2.Note = "err", err.Error()
					} else {
						ne2.St = "ok"
						if c.equal(c.msg, dirty) {
							ne2.Same = 1
						}
					}
				}
				ne2.Off = d2.Offset()
				w.Emit(ne2)
			}
			// truncations of the nested field (it is the last field when pos != 1): stub decoder, both modes
			if pos != 1 && len(mb) > 0 {
				full := buf[:enc.VerifOffset()]
				for cut := 1; cut <= 3 && cut <= len(mb); cut++ {
					for mode := 0; mode <= 1; mode++ {
						tb := mkbuf(full[:len(full)-cut])
						w.NextGroup()
						td := newDecoder(tb)
						if mode == 1 {
							doCall(td, tb, call{op: "SetMode", i1: 1}, false, nil, nil)
						}
						if pre > 0 {
							doCall(td, tb, call{op: "Tag"}, true, []int{1, 2}, nil)
							doCall(td, tb, call{op: "Bytes"}, true, []int{0x42}, nil)
						}
						doCall(td, tb, call{op: "Tag"}, true, []int{fn, 2}, nil)
						doCall(td, tb, call{op: "Nested", i1: 0}, false, nil, nil)
					}
				}
			}
		}
	}
	// EncodeRaw and EncodeMapEntryHeader
	for _, n := range []int{0, 1, 5, 127, 128, 300} {
		raw := make([]byte, n)
		for i := range raw {
			raw[i] = byte(i*3 + 1)
		}
		for _, pre := range []int{0, 3} {
			buf := make([]byte, pre+n)
			enc := csproto.NewEncoder(buf)
			if pre > 0 {
				enc.EncodeBytes(1, []byte{0x42})
			}
			e := &tr.Ev{C: "encraw", A: tr.Bytes(raw), P: enc.VerifOffset(), St: "ok"}
			func() {
				defer func() {
					if r := recover(); r != nil {
						e.St = "panic"
						e.Note = fmt.Sprint(r)
					}
				}()
				enc.EncodeRaw(raw)
			}()
			e.Off = enc.VerifOffset()
			if e.Off >= e.P && e.Off <= len(buf) {
				e.Out = tr.Bytes(buf[e.P:e.Off])
			}
			w.Emit(e)
		}
	}
	for _, fn := range fns {
		for _, sz := range []int{0, 1, 127, 128, 16383, 16384, 1<<31 - 1} {
			buf := make([]byte, 16)
			enc := csproto.NewEncoder(buf)
			e := &tr.Ev{C: "encmh", Fn: fn, I2: sz, P: 0, St: "ok"}
			func() {
				defer func() {
					if r := recover(); r != nil {
						e.St = "panic"
						e.Note = fmt.Sprint(r)
					}
				}()
				enc.EncodeMapEntryHeader(fn, sz)
			}()
			e.Off = enc.VerifOffset()
			e.Out = tr.Bytes(buf[:e.Off])
			w.Emit(e)
		}
	}
	// a payload the OWNING RUNTIME rejects, for every fixture type that csproto only knows through its runtime (no csproto.Unmarshaler):
	// the error has to come back from DecodeNested ("an error from the nested message propagates to the caller")
	seenType := map[string]bool{}
	for _, c := range cases {
		if c.fresh == nil {
			continue
		}
		dst := c.fresh()
		tn := fmt.Sprintf("%T", dst)
		if _, own := dst.(csproto.Unmarshaler); own || c.fail || seenType[tn] {
			continue
		}
		seenType[tn] = true
		for pi, bad := range [][]byte{{0x0a, 0x05, 'a'}, {0x0a}, {0x08, 0x80}, {0x0f}} {
			probe := c.fresh()
			if csproto.Unmarshal(append([]byte{}, bad...), probe) == nil {
				continue // this runtime accepts it for this type: nothing to propagate
			}
			ib := mkbuf(protowire.AppendBytes(protowire.AppendTag(nil, 7, protowire.BytesType), bad))
			w.NextGroup()
			d := newDecoder(ib)
			doCall(d, ib, call{op: "Tag"}, true, []int{7, 2}, nil)
			ne := &tr.Ev{C: "dec", Op: "NestedBad", P: d.Offset(), Mode: 0, K: c.flavour, Note: fmt.Sprintf("%s payload %d", tn, pi)}
			var err error
			func() {
				defer func() {
					if r := recover(); r != nil {
						ne.St, ne.Note = "panic", fmt.Sprint(r)
					}
				}()
				err = d.DecodeNested(c.fresh())
			}()
			if ne.St == "" {
				if err != nil {
					ne.St = "err"
				} else {
					ne.St = "ok"
				}
			}
			ne.Off = d.Offset()
			w.Emit(ne)
			// the decoder is judged no further after a failed call
		}
	}

}
