package main

// Family "prim" (C01, C03): the package-level wire primitives EncodeTag / EncodeVarint / EncodeZigZag32/64 / EncodeFixed32/64 and
// DecodeVarint / DecodeZigZag32/64 / DecodeFixed32/64 called directly (the Encoder / Decoder methods reach them only through
// their own bounds checks).  Encoders write into a poisoned destination of exactly the predicted size and of a larger one;
// decoders read every boundary encoding, its truncations, over-long forms and the empty slice.

import (
	"fmt"

	"github.com/CrowdStrike/csproto"
	"verif/harness/tr"
)

func primEnc(fn string, k string, a []int, fnum, wt int, want int, call func(dest []byte) int) {
	for _, extra := range []int{0, 3} {
		dest := make([]byte, want+extra)
		for i := range dest {
			dest[i] = 0xA5
		}
		e := &tr.Ev{C: "prim", Op: fn, K: k, A: a, Fn: fnum, Wt: wt, Cap: len(dest), Same: 1}
		func() {
			defer func() {
				if r := recover(); r != nil {
					e.St, e.Note = "panic", fmt.Sprint(r)
				}
			}()
			n := call(dest)
			e.I1 = n
			if n >= 0 && n <= len(dest) {
				e.Out = tr.Bytes(dest[:n])
				for _, b := range dest[n:] {
					if b != 0xA5 {
						e.Same = 0 // wrote beyond what it reported
					}
				}
			}
			e.St = "ok"
		}()
		w.Emit(e)
	}
}

func primDec(fn, op string, buf []byte) {
	e := &tr.Ev{C: "prim", Op: op, K: fn, Buf: tr.Bytes(buf)}
	func() {
		defer func() {
			if r := recover(); r != nil {
				e.St, e.Note = "panic", fmt.Sprint(r)
			}
		}()
		var v uint64
		var n int
		var err error
		p := mkbuf(buf)
		switch fn {
		case "DecodeVarint":
			v, n, err = csproto.DecodeVarint(p)
		case "DecodeZigZag32":
			var x int32
			x, n, err = csproto.DecodeZigZag32(p)
			v = uint64(int64(x))
		case "DecodeZigZag64":
			var x int64
			x, n, err = csproto.DecodeZigZag64(p)
			v = uint64(x)
		case "DecodeFixed32":
			var x uint32
			x, n, err = csproto.DecodeFixed32(p)
			e.Val = tr.LE32(x)
		case "DecodeFixed64":
			var x uint64
			x, n, err = csproto.DecodeFixed64(p)
			e.Val = tr.LE64(x)
		}
		if err != nil {
			e.St, e.Note = "err", err.Error()
			e.Val = nil
			if n != 0 {
				e.Note = "error with n != 0: " + e.Note
				e.St = "errn"
			}
			return
		}
		e.St, e.Off = "ok", n
		if fn != "DecodeFixed32" && fn != "DecodeFixed64" {
			e.Val = tr.Word(v)
		}
	}()
	w.Emit(e)
}

func famPrim(thorough bool) {
	vals := boundary64()
	n := 200
	if thorough {
		n = 20000
	}
	for i := 0; i < n; i++ {
		vals = append(vals, rnd64())
	}
	w.Emit(&tr.Ev{C: "new"})
	for _, v := range vals {
		v := v
		primEnc("EncodeVarint", "varint", tr.Word(v), 0, 0, csproto.SizeOfVarint(v), func(d []byte) int { return csproto.EncodeVarint(d, v) })
		primEnc("EncodeZigZag64", "zigzag", tr.Word(v), 0, 0, csproto.SizeOfZigZag(v), func(d []byte) int { return csproto.EncodeZigZag64(d, int64(v)) })
		x32 := int32(v)
		primEnc("EncodeZigZag32", "zigzag", tr.Word(uint64(int64(x32))), 0, 0, csproto.SizeOfZigZag(uint64(int64(x32))), func(d []byte) int { return csproto.EncodeZigZag32(d, x32) })
		primEnc("EncodeFixed32", "fixed", tr.LE32(uint32(v)), 0, 0, 4, func(d []byte) int { return csproto.EncodeFixed32(d, uint32(v)) })
		primEnc("EncodeFixed64", "fixed", tr.LE64(v), 0, 0, 8, func(d []byte) int { return csproto.EncodeFixed64(d, v) })
		// decoders: the canonical encoding, every truncation of it, an over-long form, trailing bytes
		var enc [16]byte
		k := csproto.EncodeVarint(enc[:], v)
		for cut := 0; cut <= k; cut++ {
			for _, fn := range [][2]string{{"DecodeVarint", "UInt64"}, {"DecodeZigZag32", "SInt32"}, {"DecodeZigZag64", "SInt64"}} {
				primDec(fn[0], fn[1], enc[:cut])
			}
		}
		if k < 10 {
			long := append([]byte{}, enc[:k]...)
			long[k-1] |= 0x80
			for len(long) < 10 {
				long = append(long, 0x80)
			}
			long[len(long)-1] = 0x00
			for _, fn := range [][2]string{{"DecodeVarint", "UInt64"}, {"DecodeZigZag32", "SInt32"}, {"DecodeZigZag64", "SInt64"}} {
				primDec(fn[0], fn[1], long[:k+1])
				primDec(fn[0], fn[1], long)
				primDec(fn[0], fn[1], append(append([]byte{}, long...), 0x80, 0x01))
			}
		}
		var f [9]byte
		csproto.EncodeFixed64(f[:], v)
		for cut := 0; cut <= 9; cut++ {
			primDec("DecodeFixed32", "Fixed32", f[:cut])
			primDec("DecodeFixed64", "Fixed64", f[:cut])
		}
	}
	// tag keys: boundary field numbers x wire types
	for _, fnum := range []int{1, 2, 15, 16, 2047, 2048, 262143, 262144, 33554431, 33554432, 1 << 26, 1<<29 - 1} {
		for _, wt := range []int{0, 1, 2, 5} {
			fnum, wt := fnum, wt
			primEnc("EncodeTag", "tag", nil, fnum, wt, csproto.SizeOfTagKey(fnum), func(d []byte) int { return csproto.EncodeTag(d, fnum, csproto.WireType(wt)) })
		}
	}
}
