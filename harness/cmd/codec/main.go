// Command codec records traces of the hand-written codec (csproto.Encoder, csproto.Decoder, size
// helpers) for validation against spec/TraceCodec.tla.  It serves C01, C02, C03 and C19.
//
// Families (flag -fam, comma separated):
//
//	dom   every call at every offset of every buffer of the bounded domain shared with MCDecoder
//	seq   random / mutated long inputs with random call sequences on one decoder
//	rt    encode -> size check -> decode round trips over boundary and random values (C01)
//	ref   reference (protowire) encodings cross-checked with csproto in both directions (C02)
//	skip  DecodeTag/Skip walks over well-formed field sequences (C02)
//	nest  EncodeNested / DecodeNested / EncodeRaw / EncodeMapEntryHeader bridging (C19)
package main

import (
	"encoding/json"
	"errors"
	"flag"
	"fmt"
	"io"
	"math"
	"math/rand"
	"os"
	"runtime"
	"strconv"
	"strings"

	"github.com/CrowdStrike/csproto"
	"google.golang.org/protobuf/encoding/protowire"

	"verif/harness/tr"
)

var (
	w   *tr.Writer
	rng *rand.Rand
)

// ---------------------------------------------------------------------------------------------
// decoder calls

type call struct {
	op             string
	fn, wt, i1, i2 int
}

var errStub = errors.New("stub unmarshal failure")

type stubMsg struct {
	fail bool
	cnt  int
	got  []byte
}

func (s *stubMsg) Unmarshal(b []byte) error {
	s.cnt++
	s.got = append([]byte{}, b...)
	if s.fail {
		return errStub
	}
	return nil
}

func words32(vs []int32) [][]int {
	r := make([][]int, len(vs))
	for i, v := range vs {
		r[i] = tr.Word(uint64(int64(v)))
	}
	return r
}

// mkbuf returns a copy of b whose spare capacity is poisoned, so that a read beyond len (legal
// for slicing up to cap) shows up in results.
func mkbuf(b []byte) []byte {
	back := make([]byte, len(b)+24)
	copy(back, b)
	for i := len(b); i < len(back); i++ {
		back[i] = 0xEE
	}
	return back[:len(b)]
}

// intentFile holds, while a call that may allocate is in flight, a two-event replay file (the buffer, the call).  A fatal runtime error
// (out of memory) cannot be recovered in-process; the runner reads this file, repeats the call in a child process and, if the child
// dies too, hands the crash to the specification as the outcome of that call.
var intentFile *os.File

func writeIntent(buf []byte, e *tr.Ev) {
	if intentFile == nil {
		return
	}
	switch e.Op {
	case "Tag", "Seek", "Reset", "SetMode", "More", "Offset", "Bool", "Fixed32", "Fixed64", "Float32", "Float64":
		return // these cannot allocate in proportion to a declared length
	}
	n := &tr.Ev{C: "new", Buf: tr.Bytes(buf)}
	n.Norm()
	c := *e
	c.Norm()
	b, err := json.Marshal(map[string]interface{}{"events": []*tr.Ev{n, &c}})
	if err != nil {
		return
	}
	if _, err := intentFile.WriteAt(b, 0); err == nil {
		_ = intentFile.Truncate(int64(len(b)))
	}
}

// doCall executes one decoder call and emits its event.
func doCall(d *csproto.Decoder, buf []byte, c call, hx bool, x []int, xs [][]int) *tr.Ev {
	e := &tr.Ev{C: "dec", Op: c.op, Fn: c.fn, Wt: c.wt, I1: c.i1, I2: c.i2, P: d.Offset(), Mode: int(d.Mode())}
	writeIntent(buf, e)
	if hx {
		e.Hx, e.X, e.Xs = 1, x, xs
	}
	var err error
	stub := &stubMsg{fail: c.i1 == 1}
	run := func(dd *csproto.Decoder, ee *tr.Ev, st *stubMsg) {
		defer func() {
			if r := recover(); r != nil {
				ee.St = "panic"
				ee.Note = fmt.Sprint(r)
			}
		}()
		a0 := tr.TotalAlloc()
		switch c.op {
		case "Tag":
			var tag int
			var wt csproto.WireType
			tag, wt, err = dd.DecodeTag()
			ee.Alloc = int(tr.TotalAlloc() - a0)
			ee.Val = []int{tr.Clamp(int64(tag)), tr.Clamp(int64(wt))}
		case "Bool":
			var v bool
			v, err = dd.DecodeBool()
			ee.Alloc = int(tr.TotalAlloc() - a0)
			if v {
				ee.Val = tr.Word(1)
			} else {
				ee.Val = tr.Word(0)
			}
		case "UInt32":
			var v uint32
			v, err = dd.DecodeUInt32()
			ee.Alloc = int(tr.TotalAlloc() - a0)
			ee.Val = tr.Word(uint64(v))
		case "UInt64":
			var v uint64
			v, err = dd.DecodeUInt64()
			ee.Alloc = int(tr.TotalAlloc() - a0)
			ee.Val = tr.Word(v)
		case "Int32":
			var v int32
			v, err = dd.DecodeInt32()
			ee.Alloc = int(tr.TotalAlloc() - a0)
			ee.Val = tr.Word(uint64(int64(v)))
		case "Int64":
			var v int64
			v, err = dd.DecodeInt64()
			ee.Alloc = int(tr.TotalAlloc() - a0)
			ee.Val = tr.Word(uint64(v))
		case "SInt32":
			var v int32
			v, err = dd.DecodeSInt32()
			ee.Alloc = int(tr.TotalAlloc() - a0)
			ee.Val = tr.Word(uint64(int64(v)))
		case "SInt64":
			var v int64
			v, err = dd.DecodeSInt64()
			ee.Alloc = int(tr.TotalAlloc() - a0)
			ee.Val = tr.Word(uint64(v))
		case "Fixed32":
			var v uint32
			v, err = dd.DecodeFixed32()
			ee.Alloc = int(tr.TotalAlloc() - a0)
			ee.Val = tr.LE32(v)
		case "Fixed64":
			var v uint64
			v, err = dd.DecodeFixed64()
			ee.Alloc = int(tr.TotalAlloc() - a0)
			ee.Val = tr.LE64(v)
		case "Float32":
			var v float32
			v, err = dd.DecodeFloat32()
			ee.Alloc = int(tr.TotalAlloc() - a0)
			ee.Val = tr.F32(v)
		case "Float64":
			var v float64
			v, err = dd.DecodeFloat64()
			ee.Alloc = int(tr.TotalAlloc() - a0)
			ee.Val = tr.F64(v)
		case "Bytes":
			var v []byte
			v, err = dd.DecodeBytes()
			ee.Alloc = int(tr.TotalAlloc() - a0)
			ee.Val = tr.Bytes(v)
			lastRaw = v
		case "String":
			var v string
			v, err = dd.DecodeString()
			ee.Alloc = int(tr.TotalAlloc() - a0)
			ee.Val = tr.Bytes([]byte(v))
		case "PackedBool":
			var v []bool
			v, err = dd.DecodePackedBool()
			ee.Alloc = int(tr.TotalAlloc() - a0)
			for _, x := range v {
				if x {
					ee.Vals = append(ee.Vals, tr.Word(1))
				} else {
					ee.Vals = append(ee.Vals, tr.Word(0))
				}
			}
		case "PackedInt32":
			var v []int32
			v, err = dd.DecodePackedInt32()
			ee.Alloc = int(tr.TotalAlloc() - a0)
			ee.Vals = words32(v)
		case "PackedSint32":
			var v []int32
			v, err = dd.DecodePackedSint32()
			ee.Alloc = int(tr.TotalAlloc() - a0)
			ee.Vals = words32(v)
		case "PackedInt64":
			var v []int64
			v, err = dd.DecodePackedInt64()
			ee.Alloc = int(tr.TotalAlloc() - a0)
			for _, x := range v {
				ee.Vals = append(ee.Vals, tr.Word(uint64(x)))
			}
		case "PackedSint64":
			var v []int64
			v, err = dd.DecodePackedSint64()
			ee.Alloc = int(tr.TotalAlloc() - a0)
			for _, x := range v {
				ee.Vals = append(ee.Vals, tr.Word(uint64(x)))
			}
		case "PackedUint32":
			var v []uint32
			v, err = dd.DecodePackedUint32()
			ee.Alloc = int(tr.TotalAlloc() - a0)
			for _, x := range v {
				ee.Vals = append(ee.Vals, tr.Word(uint64(x)))
			}
		case "PackedUint64":
			var v []uint64
			v, err = dd.DecodePackedUint64()
			ee.Alloc = int(tr.TotalAlloc() - a0)
			for _, x := range v {
				ee.Vals = append(ee.Vals, tr.Word(x))
			}
		case "PackedFixed32":
			var v []uint32
			v, err = dd.DecodePackedFixed32()
			ee.Alloc = int(tr.TotalAlloc() - a0)
			for _, x := range v {
				ee.Vals = append(ee.Vals, tr.LE32(x))
			}
		case "PackedFixed64":
			var v []uint64
			v, err = dd.DecodePackedFixed64()
			ee.Alloc = int(tr.TotalAlloc() - a0)
			for _, x := range v {
				ee.Vals = append(ee.Vals, tr.LE64(x))
			}
		case "PackedFloat32":
			var v []float32
			v, err = dd.DecodePackedFloat32()
			ee.Alloc = int(tr.TotalAlloc() - a0)
			for _, x := range v {
				ee.Vals = append(ee.Vals, tr.F32(x))
			}
		case "PackedFloat64":
			var v []float64
			v, err = dd.DecodePackedFloat64()
			ee.Alloc = int(tr.TotalAlloc() - a0)
			for _, x := range v {
				ee.Vals = append(ee.Vals, tr.F64(x))
			}
		case "Nested":
			err = dd.DecodeNested(st)
			ee.Alloc = 0 // the stub copies its input; allocation is probed on the other calls
			ee.Cnt = stub.cnt
			ee.Sb = tr.Bytes(stub.got)
			if err == errStub {
				ee.Same = 1
			}
		case "Skip":
			var v []byte
			v, err = dd.Skip(c.fn, csproto.WireType(c.wt))
			ee.Alloc = int(tr.TotalAlloc() - a0)
			ee.Val = tr.Bytes(v)
			lastRaw = v
		case "Seek":
			_, err = dd.Seek(int64(c.i1), c.i2)
			ee.Alloc = int(tr.TotalAlloc() - a0)
		case "Reset":
			dd.Reset()
		case "SetMode":
			dd.SetMode(csproto.DecoderMode(c.i1))
		case "More":
			if dd.More() {
				ee.Val = []int{1}
			} else {
				ee.Val = []int{0}
			}
		case "Offset":
			ee.Val = []int{dd.Offset()}
		default:
			panic("harness: unknown op " + c.op)
		}
	}
	run(d, e, stub)
	if e.Alloc > 64*len(buf)+4096 && e.St != "panic" {
		// TotalAlloc is process-wide (a runtime-internal allocation can fall into the window); an allocation driven by the input is
		// deterministic: repeat the call on fresh decoders at the same position and keep the smallest reading
		for k := 0; k < 3; k++ {
			d2 := csproto.NewDecoder(buf)
			if e.Mode == 1 {
				d2.SetMode(csproto.DecoderModeFast)
			}
			if _, serr := d2.Seek(int64(e.P), 0); serr != nil {
				break
			}
			e2 := &tr.Ev{}
			errKeep := err
			run(d2, e2, &stubMsg{fail: c.i1 == 1})
			err = errKeep
			if e2.Alloc < e.Alloc {
				e.Alloc = e2.Alloc
			}
		}
	}
	if e.St == "" {
		if err != nil {
			e.St = "err"
			e.Val, e.Vals = nil, nil
		} else {
			e.St = "ok"
		}
	}
	e.Off = tr.Clamp(int64(d.Offset()))
	w.Emit(e)
	return e
}

func newDecoder(buf []byte) *csproto.Decoder {
	w.Emit(&tr.Ev{C: "new", Buf: tr.Bytes(buf)})
	return csproto.NewDecoder(buf)
}

var (
	varintOps = []string{"Bool", "UInt32", "UInt64", "Int32", "Int64", "SInt32", "SInt64"}
	fixedOps  = []string{"Fixed32", "Fixed64", "Float32", "Float64"}
	packedOps = []string{"PackedBool", "PackedInt32", "PackedInt64", "PackedUint32", "PackedUint64", "PackedSint32",
		"PackedSint64", "PackedFixed32", "PackedFixed64", "PackedFloat32", "PackedFloat64"}
)

// domCalls mirrors MCDecoder!Calls: the calls tried in every state of the bounded domain.
func domCalls(n int, fast bool) []call {
	var cs []call
	if !fast {
		cs = append(cs, call{op: "Tag"})
		for _, o := range varintOps {
			cs = append(cs, call{op: o})
		}
		for _, o := range fixedOps {
			cs = append(cs, call{op: o})
		}
		for _, o := range packedOps {
			cs = append(cs, call{op: o})
		}
		cs = append(cs, call{op: "Seek", i1: -1, i2: 0}, call{op: "Seek", i1: n + 1, i2: 0}, call{op: "Seek", i1: n, i2: 0},
			call{op: "Seek", i1: -1, i2: 1}, call{op: "Seek", i1: 1, i2: 1}, call{op: "Seek", i1: 0, i2: 2},
			call{op: "Seek", i1: 1, i2: 2}, call{op: "Seek", i1: -1, i2: 2}, call{op: "Seek", i1: 0, i2: 3},
			call{op: "Reset"}, call{op: "More"}, call{op: "Offset"})
	}
	cs = append(cs, call{op: "Bytes"}, call{op: "String"}, call{op: "Nested", i1: 0}, call{op: "Nested", i1: 1})
	for _, wt := range []int{0, 1, 2, 5, 3} {
		cs = append(cs, call{op: "Skip", fn: 1, wt: wt})
	}
	cs = append(cs, call{op: "Skip", fn: 16, wt: 0}, call{op: "Skip", fn: 2, wt: 0}, call{op: "Skip", fn: 0, wt: 0})
	return cs
}

func structuredBufs() [][]byte {
	var out [][]byte
	lens := []uint64{5, 127, 128, 1<<31 - 1, 1 << 31, 1 << 32, 1 << 63, math.MaxUint64}
	for _, l := range lens {
		pre := protowire.AppendVarint(nil, l)
		for _, avail := range []int{0, 1, 4, 5, 9} {
			b := append([]byte{}, pre...)
			for i := 0; i < avail; i++ {
				b = append(b, 1)
			}
			out = append(out, b)
		}
	}
	for _, k := range []int{8, 9, 10} {
		b := make([]byte, k)
		for i := range b {
			b[i] = 0x80
		}
		out = append(out, append(b, 1))
	}
	for _, last := range []byte{1, 2, 0x7f} {
		b := make([]byte, 9)
		for i := range b {
			b[i] = 0xff
		}
		out = append(out, append(b, last))
	}
	// key + fixed-width truncations
	for n := 0; n <= 8; n++ {
		b := []byte{9}
		for i := 0; i < n; i++ {
			b = append(b, byte(i+1))
		}
		out = append(out, b)
	}
	return out
}

func famDom(alphabet []byte, maxlen int, structured bool) {
	var bufs [][]byte
	var rec func(cur []byte)
	rec = func(cur []byte) {
		bufs = append(bufs, append([]byte{}, cur...))
		if len(cur) == maxlen {
			return
		}
		for _, a := range alphabet {
			rec(append(cur, a))
		}
	}
	rec(nil)
	if structured {
		bufs = append(bufs, structuredBufs()...)
	}
	for _, b := range bufs {
		for mode := 0; mode <= 1; mode++ {
			buf := mkbuf(b)
			w.NextGroup()
			d := newDecoder(buf)
			if mode == 1 {
				doCall(d, buf, call{op: "SetMode", i1: 1}, false, nil, nil)
			}
			for off := 0; off <= len(buf); off++ {
				for _, c := range domCalls(len(buf), mode == 1) {
					doCall(d, buf, call{op: "Seek", i1: off, i2: 0}, false, nil, nil)
					doCall(d, buf, c, false, nil, nil)
				}
			}
		}
	}
}

// ---------------------------------------------------------------------------------------------
// random material

func rnd64() uint64 {
	switch rng.Intn(6) {
	case 0:
		k := uint(rng.Intn(65))
		if k == 64 {
			return math.MaxUint64
		}
		return uint64(1)<<k - uint64(rng.Intn(2))
	case 1:
		return uint64(rng.Intn(300))
	case 2:
		return uint64(int64(-rng.Intn(300)))
	default:
		return rng.Uint64()
	}
}

var fieldNumbers = []int{1, 2, 15, 16, 2047, 2048, 1<<18 - 1, 1 << 18, 1<<25 - 1, 1 << 25, 1<<26 - 1, 1 << 26, 1 << 28, 1<<29 - 1}

func rndFn() int {
	if rng.Intn(3) == 0 {
		return 1 + rng.Intn(1<<29-1)
	}
	return fieldNumbers[rng.Intn(len(fieldNumbers))]
}

// a random well-formed field; returns its bytes
func rndField() []byte {
	fn := protowire.Number(rndFn())
	var b []byte
	switch rng.Intn(4) {
	case 0:
		b = protowire.AppendTag(b, fn, protowire.VarintType)
		b = protowire.AppendVarint(b, rnd64())
	case 1:
		b = protowire.AppendTag(b, fn, protowire.Fixed64Type)
		b = protowire.AppendFixed64(b, rng.Uint64())
	case 2:
		b = protowire.AppendTag(b, fn, protowire.Fixed32Type)
		b = protowire.AppendFixed32(b, rng.Uint32())
	default:
		b = protowire.AppendTag(b, fn, protowire.BytesType)
		n := []int{0, 1, 2, 5, 127, 128, 300}[rng.Intn(7)]
		if rng.Intn(4) > 0 {
			n = rng.Intn(12)
		}
		p := make([]byte, n)
		for i := range p {
			p[i] = byte(rng.Intn(256))
		}
		// sometimes a packed run of small varints so the packed readers get well-formed input
		if rng.Intn(3) == 0 {
			for i := range p {
				p[i] = byte(rng.Intn(128))
			}
		}
		b = protowire.AppendBytes(b, p)
	}
	return b
}

func rndMessage(maxFields int) []byte {
	var b []byte
	n := rng.Intn(maxFields + 1)
	for i := 0; i < n; i++ {
		b = append(b, rndField()...)
	}
	return b
}

func mutate(b []byte) []byte {
	b = append([]byte{}, b...)
	switch rng.Intn(6) {
	case 0: // truncate
		if len(b) > 0 {
			b = b[:rng.Intn(len(b))]
		}
	case 1: // flip a byte
		if len(b) > 0 {
			b[rng.Intn(len(b))] = []byte{0, 1, 2, 0x7f, 0x80, 0xff, 8, 10}[rng.Intn(8)]
		}
	case 2: // inflate: insert a huge length prefix somewhere
		pos := 0
		if len(b) > 0 {
			pos = rng.Intn(len(b))
		}
		l := []uint64{127, 128, 1<<31 - 1, 1 << 31, 1 << 32, 1 << 63, math.MaxUint64}[rng.Intn(7)]
		pre := protowire.AppendVarint(nil, l)
		b = append(b[:pos], append(pre, b[pos:]...)...)
	case 3: // random bytes
		n := rng.Intn(24)
		b = make([]byte, n)
		for i := range b {
			b[i] = []byte{0, 1, 2, 4, 8, 9, 10, 13, 0x7f, 0x80, 0xff, byte(rng.Intn(256))}[rng.Intn(12)]
		}
	case 4: // set continuation bits on a run
		if len(b) > 0 {
			pos := rng.Intn(len(b))
			for i := pos; i < len(b) && i < pos+11; i++ {
				b[i] |= 0x80
			}
		}
	default: // unchanged
	}
	return b
}

func rndCall(n int) call {
	switch r := rng.Intn(20); {
	case r < 3:
		return call{op: "Tag"}
	case r < 6:
		return call{op: varintOps[rng.Intn(len(varintOps))]}
	case r < 8:
		return call{op: fixedOps[rng.Intn(len(fixedOps))]}
	case r < 11:
		return call{op: packedOps[rng.Intn(len(packedOps))]}
	case r < 13:
		return call{op: []string{"Bytes", "String"}[rng.Intn(2)]}
	case r < 14:
		return call{op: "Nested", i1: rng.Intn(2)}
	case r < 16:
		return call{op: "Skip", fn: rndFn(), wt: []int{0, 1, 2, 5, 3, 4, 7}[rng.Intn(7)]}
	case r < 18:
		return call{op: "Seek", i1: rng.Intn(n+3) - 1, i2: rng.Intn(4)}
	case r < 19:
		return call{op: "SetMode", i1: rng.Intn(2)}
	default:
		return call{op: []string{"Reset", "More", "Offset"}[rng.Intn(3)]}
	}
}

func famSeq(iters int) {
	for it := 0; it < iters; it++ {
		b := rndMessage(5)
		if rng.Intn(4) > 0 {
			b = mutate(b)
		}
		buf := mkbuf(b)
		w.NextGroup()
		d := newDecoder(buf)
		n := 1 + rng.Intn(12)
		var lastTag, lastWt = -1, 0
		for i := 0; i < n; i++ {
			c := rndCall(len(buf))
			// half of the time follow a successful DecodeTag with the matching Skip
			if lastTag >= 0 && rng.Intn(2) == 0 {
				c = call{op: "Skip", fn: lastTag, wt: lastWt}
			}
			e := doCall(d, buf, c, false, nil, nil)
			lastTag = -1
			if c.op == "Tag" && e.St == "ok" && e.Val[0] <= 1<<29-1 {
				lastTag, lastWt = e.Val[0], e.Val[1]
			}
		}
	}
}

// ---------------------------------------------------------------------------------------------
// C01 / C02: encode, size, decode

var scalarKinds = []string{"bool", "int32", "int64", "uint32", "uint64", "enum", "sint32", "sint64",
	"fixed32", "sfixed32", "float", "fixed64", "sfixed64", "double", "string", "bytes"}

func isVarintKind(k string) bool {
	switch k {
	case "bool", "int32", "int64", "uint32", "uint64", "enum", "sint32", "sint64":
		return true
	}
	return false
}

// value in the trace representation -> argument for the kind
func normVal(k string, raw uint64) []int {
	switch k {
	case "bool":
		return tr.Word(raw & 1)
	case "int32", "enum", "sint32":
		return tr.Word(uint64(int64(int32(raw))))
	case "uint32":
		return tr.Word(uint64(uint32(raw)))
	case "int64", "uint64", "sint64":
		return tr.Word(raw)
	case "fixed32", "sfixed32", "float":
		return tr.LE32(uint32(raw))
	default:
		return tr.LE64(raw)
	}
}

func decOpOf(k string, packed bool) string {
	m := map[string]string{"bool": "Bool", "int32": "Int32", "enum": "Int32", "int64": "Int64", "uint32": "UInt32",
		"uint64": "UInt64", "sint32": "SInt32", "sint64": "SInt64", "fixed32": "Fixed32", "sfixed32": "Fixed32",
		"float": "Float32", "fixed64": "Fixed64", "sfixed64": "Fixed64", "double": "Float64", "string": "String", "bytes": "Bytes"}
	o := m[k]
	if packed {
		switch o {
		case "UInt32":
			return "PackedUint32"
		case "UInt64":
			return "PackedUint64"
		case "SInt32":
			return "PackedSint32"
		case "SInt64":
			return "PackedSint64"
		}
		return "Packed" + o
	}
	return o
}

func u32of(a []int) uint32 {
	return uint32(a[0]) | uint32(a[1])<<8 | uint32(a[2])<<16 | uint32(a[3])<<24
}
func u64of(a []int) uint64 {
	var v uint64
	for i := 0; i < 8; i++ {
		v |= uint64(a[i]) << (8 * uint(i))
	}
	return v
}

// predicted size of one element payload, from the size helpers only
func elemSize(k string, a []int) int {
	switch k {
	case "bool":
		return 1
	case "sint32", "sint64":
		return csproto.SizeOfZigZag(tr.FromWord(a))
	case "int32", "int64", "uint32", "uint64", "enum":
		return csproto.SizeOfVarint(tr.FromWord(a))
	case "fixed32", "sfixed32", "float":
		return 4
	case "fixed64", "sfixed64", "double":
		return 8
	default:
		return csproto.SizeOfVarint(uint64(len(a))) + len(a)
	}
}

func refElem(b []byte, k string, a []int) []byte {
	switch k {
	case "sint32", "sint64":
		return protowire.AppendVarint(b, protowire.EncodeZigZag(int64(tr.FromWord(a))))
	case "bool", "int32", "int64", "uint32", "uint64", "enum":
		return protowire.AppendVarint(b, tr.FromWord(a))
	case "fixed32", "sfixed32", "float":
		return protowire.AppendFixed32(b, u32of(a))
	case "fixed64", "sfixed64", "double":
		return protowire.AppendFixed64(b, u64of(a))
	default:
		return protowire.AppendBytes(b, tr.ToBytes(a))
	}
}

func wtOf(k string) protowire.Type {
	switch {
	case isVarintKind(k):
		return protowire.VarintType
	case k == "fixed32" || k == "sfixed32" || k == "float":
		return protowire.Fixed32Type
	case k == "fixed64" || k == "sfixed64" || k == "double":
		return protowire.Fixed64Type
	}
	return protowire.BytesType
}

// reference encoding by protowire (independent of csproto)
func refField(k string, fn int, packed bool, a []int, as [][]int) []byte {
	if packed {
		if len(as) == 0 {
			return nil
		}
		var body []byte
		for _, x := range as {
			body = refElem(body, k, x)
		}
		b := protowire.AppendTag(nil, protowire.Number(fn), protowire.BytesType)
		return protowire.AppendBytes(b, body)
	}
	b := protowire.AppendTag(nil, protowire.Number(fn), wtOf(k))
	return refElem(b, k, a)
}

func encodeOne(enc *csproto.Encoder, k string, fn int, packed bool, a []int, as [][]int) {
	if packed {
		switch k {
		case "bool":
			vs := make([]bool, len(as))
			for i, x := range as {
				vs[i] = tr.FromWord(x) != 0
			}
			enc.EncodePackedBool(fn, vs)
		case "int32", "enum":
			vs := make([]int32, len(as))
			for i, x := range as {
				vs[i] = int32(tr.FromWord(x))
			}
			enc.EncodePackedInt32(fn, vs)
		case "sint32":
			vs := make([]int32, len(as))
			for i, x := range as {
				vs[i] = int32(tr.FromWord(x))
			}
			enc.EncodePackedSInt32(fn, vs)
		case "int64":
			vs := make([]int64, len(as))
			for i, x := range as {
				vs[i] = int64(tr.FromWord(x))
			}
			enc.EncodePackedInt64(fn, vs)
		case "sint64":
			vs := make([]int64, len(as))
			for i, x := range as {
				vs[i] = int64(tr.FromWord(x))
			}
			enc.EncodePackedSInt64(fn, vs)
		case "uint32":
			vs := make([]uint32, len(as))
			for i, x := range as {
				vs[i] = uint32(tr.FromWord(x))
			}
			enc.EncodePackedUInt32(fn, vs)
		case "uint64":
			vs := make([]uint64, len(as))
			for i, x := range as {
				vs[i] = tr.FromWord(x)
			}
			enc.EncodePackedUInt64(fn, vs)
		case "fixed32":
			vs := make([]uint32, len(as))
			for i, x := range as {
				vs[i] = u32of(x)
			}
			enc.EncodePackedFixed32(fn, vs)
		case "sfixed32":
			vs := make([]int32, len(as))
			for i, x := range as {
				vs[i] = int32(u32of(x))
			}
			enc.EncodePackedSFixed32(fn, vs)
		case "float":
			vs := make([]float32, len(as))
			for i, x := range as {
				vs[i] = math.Float32frombits(u32of(x))
			}
			enc.EncodePackedFloat32(fn, vs)
		case "fixed64":
			vs := make([]uint64, len(as))
			for i, x := range as {
				vs[i] = u64of(x)
			}
			enc.EncodePackedFixed64(fn, vs)
		case "sfixed64":
			vs := make([]int64, len(as))
			for i, x := range as {
				vs[i] = int64(u64of(x))
			}
			enc.EncodePackedSFixed64(fn, vs)
		case "double":
			vs := make([]float64, len(as))
			for i, x := range as {
				vs[i] = math.Float64frombits(u64of(x))
			}
			enc.EncodePackedFloat64(fn, vs)
		default:
			panic("harness: no packed encoder for " + k)
		}
		return
	}
	switch k {
	case "bool":
		enc.EncodeBool(fn, tr.FromWord(a) != 0)
	case "int32", "enum":
		enc.EncodeInt32(fn, int32(tr.FromWord(a)))
	case "int64":
		enc.EncodeInt64(fn, int64(tr.FromWord(a)))
	case "uint32":
		enc.EncodeUInt32(fn, uint32(tr.FromWord(a)))
	case "uint64":
		enc.EncodeUInt64(fn, tr.FromWord(a))
	case "sint32":
		enc.EncodeSInt32(fn, int32(tr.FromWord(a)))
	case "sint64":
		enc.EncodeSInt64(fn, int64(tr.FromWord(a)))
	case "fixed32":
		enc.EncodeFixed32(fn, u32of(a))
	case "sfixed32":
		enc.EncodeFixed32(fn, uint32(int32(u32of(a)))) // generated code casts sfixed32 to uint32
	case "float":
		enc.EncodeFloat32(fn, math.Float32frombits(u32of(a)))
	case "fixed64":
		enc.EncodeFixed64(fn, u64of(a))
	case "sfixed64":
		enc.EncodeFixed64(fn, uint64(int64(u64of(a))))
	case "double":
		enc.EncodeFloat64(fn, math.Float64frombits(u64of(a)))
	case "string":
		enc.EncodeString(fn, string(tr.ToBytes(a)))
	case "bytes":
		enc.EncodeBytes(fn, tr.ToBytes(a))
	}
}

// roundTrip: size from helpers -> encode into an exactly sized buffer -> decode in both modes.
// withRef additionally records the protowire encoding and decodes *that* with csproto.
func roundTrip(k string, fn int, packed bool, a []int, as [][]int, withRef bool) {
	e := &tr.Ev{C: "enc", K: k, Fn: fn, A: a, As: as}
	if packed {
		e.I1 = 1
	}
	e.H1 = csproto.SizeOfTagKey(fn)
	args := as
	if !packed {
		args = [][]int{a}
	}
	if isVarintKind(k) {
		for _, x := range args {
			e.H2 += csproto.SizeOfVarint(tr.FromWord(x))
			e.H3 += csproto.SizeOfZigZag(tr.FromWord(x))
		}
	} else if k == "string" || k == "bytes" {
		e.H2 = csproto.SizeOfVarint(uint64(len(a)))
	}
	// predicted size from the helpers alone
	size := 0
	if packed {
		body := 0
		for _, x := range as {
			body += elemSize(k, x)
		}
		if len(as) > 0 {
			size = csproto.SizeOfTagKey(fn) + csproto.SizeOfVarint(uint64(body)) + body
		}
	} else {
		size = csproto.SizeOfTagKey(fn) + elemSize(k, a)
	}
	back := make([]byte, size+16)
	for i := range back {
		back[i] = 0xA5
	}
	buf := back[:size]
	enc := csproto.NewEncoder(buf)
	e.Cap = size
	func() {
		defer func() {
			if r := recover(); r != nil {
				e.St = "panic"
				e.Note = fmt.Sprint(r)
			}
		}()
		encodeOne(enc, k, fn, packed, a, as)
		e.St = "ok"
	}()
	n := enc.VerifOffset() // write cursor, exposed under the verif build tag
	e.P = 0
	e.Off = n
	if n <= size {
		e.Out = tr.Bytes(buf[:n])
	} else {
		e.Out = tr.Bytes(buf)
	}
	for i := size; i < len(back); i++ {
		if back[i] != 0xA5 {
			e.St = "panic"
			e.Note = "wrote beyond the buffer"
		}
	}
	if withRef {
		e.Ref = tr.Bytes(refField(k, fn, packed, a, as))
		e.Hx = 1
	}
	w.NextGroup()
	w.Emit(e)
	if e.St != "ok" {
		return
	}
	inputs := [][]byte{buf[:min(n, size)]}
	if withRef {
		inputs = append(inputs, refField(k, fn, packed, a, as))
	}
	for _, in := range inputs {
		if len(in) == 0 {
			continue
		}
		for mode := 0; mode <= 1; mode++ {
			ib := mkbuf(in)
			d := newDecoder(ib)
			if mode == 1 {
				doCall(d, ib, call{op: "SetMode", i1: 1}, false, nil, nil)
			}
			wt := int(wtOf(k))
			if packed {
				wt = 2
			}
			doCall(d, ib, call{op: "Tag"}, true, []int{fn, wt}, nil)
			if packed {
				doCall(d, ib, call{op: decOpOf(k, true)}, true, nil, as)
			} else {
				doCall(d, ib, call{op: decOpOf(k, false)}, true, a, nil)
			}
			doCall(d, ib, call{op: "More"}, true, []int{0}, nil)
		}
	}
}

func boundary64() []uint64 {
	var vs []uint64
	for k := uint(0); k < 64; k++ {
		vs = append(vs, uint64(1)<<k-1, uint64(1)<<k)
	}
	vs = append(vs, math.MaxUint64, math.MaxUint64-1, 1<<63+1, uint64(1<<63-1))
	for _, s := range []int64{-1, -2, -127, -128, -129, math.MinInt32, math.MinInt32 - 1, math.MinInt32 + 1, math.MaxInt32, math.MaxInt32 + 1, math.MinInt64, math.MinInt64 + 1} {
		vs = append(vs, uint64(s))
	}
	// float / double bit patterns: NaN payloads, -0.0, inf, denormals
	vs = append(vs, 0x7fc00000, 0x7fc00001, 0xffc00000, 0x7f800001, 0x80000000, 0x7f800000, 0xff800000, 1,
		0x7ff8000000000000, 0x7ff8000000000001, 0xfff8000000000000, 0x7ff0000000000001, 0x8000000000000000, 0x7ff0000000000000)
	return vs
}

func rndPayload() []int {
	n := []int{0, 1, 2, 127, 128, 300}[rng.Intn(6)]
	if rng.Intn(3) > 0 {
		n = rng.Intn(20)
	}
	p := make([]int, n)
	for i := range p {
		p[i] = rng.Intn(256)
	}
	return p
}

func famRT(thorough bool, withRef bool) {
	fns := fieldNumbers
	bvals := boundary64()
	fnStep := 4
	if thorough {
		fnStep = 1
	}
	// boundary values x kinds x field numbers (rotating through field numbers when not thorough)
	i := 0
	for _, k := range scalarKinds {
		if k == "string" || k == "bytes" {
			for _, n := range []int{0, 1, 2, 127, 128, 300, 16383, 16384} {
				p := make([]int, n)
				for j := range p {
					p[j] = (j*7 + n) % 256
				}
				for fi := 0; fi < len(fns); fi += fnStep {
					roundTrip(k, fns[(fi+i)%len(fns)], false, p, nil, withRef)
				}
				i++
			}
			continue
		}
		for _, v := range bvals {
			for fi := 0; fi < len(fns); fi += fnStep * 3 {
				roundTrip(k, fns[(fi+i)%len(fns)], false, normVal(k, v), nil, withRef)
			}
			i++
		}
	}
	// packed lists of length 0..3 over boundary elements, and longer ones
	elems := []uint64{0, 1, 127, 128, math.MaxUint64 - 0, 0xFFFFFFFF80000000, math.MaxInt32, 1 << 31, math.MaxUint32, 1 << 32, 1 << 63, math.MaxUint64, 0x7fc00001, 0x80000000}
	for _, k := range scalarKinds {
		if k == "string" || k == "bytes" {
			continue
		}
		roundTrip(k, fns[i%len(fns)], true, nil, [][]int{}, withRef)
		for _, n := range []int{1, 2, 3, 31, 32, 33, 127, 128} {
			reps := 6
			if n > 3 {
				reps = 1
			}
			if thorough {
				reps *= 4
			}
			for r := 0; r < reps; r++ {
				as := make([][]int, n)
				for j := range as {
					as[j] = normVal(k, elems[rng.Intn(len(elems))])
				}
				roundTrip(k, fns[(i+r)%len(fns)], true, nil, as, withRef)
			}
			i++
		}
	}
	// random full-width values and field numbers
	iters := 1500
	if thorough {
		iters = 30000
	}
	for it := 0; it < iters; it++ {
		k := scalarKinds[rng.Intn(len(scalarKinds))]
		fn := rndFn()
		if k == "string" || k == "bytes" {
			roundTrip(k, fn, false, rndPayload(), nil, withRef)
			continue
		}
		if rng.Intn(4) == 0 {
			n := rng.Intn(6)
			as := make([][]int, n)
			for j := range as {
				as[j] = normVal(k, rnd64())
			}
			roundTrip(k, fn, true, nil, as, withRef)
			continue
		}
		roundTrip(k, fn, false, normVal(k, rnd64()), nil, withRef)
	}
	// bare size helpers
	for _, v := range bvals {
		w.Emit(&tr.Ev{C: "size", K: "varint", A: tr.Word(v), H1: csproto.SizeOfVarint(v)})
		w.Emit(&tr.Ev{C: "size", K: "zigzag", A: tr.Word(v), H1: csproto.SizeOfZigZag(v)})
	}
	for _, fn := range append([]int{0, 3, 17, 2049}, fns...) {
		w.Emit(&tr.Ev{C: "size", K: "tagkey", Fn: fn, H1: csproto.SizeOfTagKey(fn)})
	}
	for it := 0; it < iters; it++ {
		v := rnd64()
		w.Emit(&tr.Ev{C: "size", K: "varint", A: tr.Word(v), H1: csproto.SizeOfVarint(v)})
		w.Emit(&tr.Ev{C: "size", K: "zigzag", A: tr.Word(v), H1: csproto.SizeOfZigZag(v)})
		fn := rndFn()
		w.Emit(&tr.Ev{C: "size", K: "tagkey", Fn: fn, H1: csproto.SizeOfTagKey(fn)})
	}
}

// famSkip: DecodeTag/Skip walks over well-formed field sequences; the concatenation of what Skip
// returns must reproduce the input.
func famSkip(iters int) {
	for it := 0; it < iters; it++ {
		b := rndMessage(6)
		for mode := 0; mode <= 1; mode++ {
			walkSkip(b, mode)
		}
		if it%3 == 0 {
			// the same fields with every key written in one byte more than necessary (legal wire format): the walk reads each key with
			// DecodeTag, so Skip has to return the whole raw field - in both modes
			pb := padKeys(b)
			for mode := 0; mode <= 1; mode++ {
				walkSkip(pb, mode)
			}
		}
	}
}

func padKeys(b []byte) []byte {
	var out []byte
	for len(b) > 0 {
		num, typ, n := protowire.ConsumeTag(b)
		if n < 0 {
			return append(out, b...)
		}
		m := protowire.ConsumeFieldValue(num, typ, b[n:])
		if m < 0 {
			return append(out, b...)
		}
		key := append([]byte{}, b[:n]...)
		if n < 5 {
			key[n-1] |= 0x80
			key = append(key, 0x00)
		}
		out = append(append(out, key...), b[n:n+m]...)
		b = b[n+m:]
	}
	return out
}

// walkSkip iterates DecodeTag; Skip over b and emits the concatenation check.
// lastRaw is the slice most recently returned by Skip / DecodeBytes itself (not a copy): results handed out earlier have to stay
// what they were while the decoder is used further
var lastRaw []byte

func walkSkip(b []byte, mode int) {
	buf := mkbuf(b)
	w.NextGroup()
	d := newDecoder(buf)
	if mode == 1 {
		doCall(d, buf, call{op: "SetMode", i1: 1}, false, nil, nil)
	}
	var cat []byte
	var held [][]byte
	ok := true
	for d.More() && ok {
		e := doCall(d, buf, call{op: "Tag"}, false, nil, nil)
		if e.St != "ok" {
			ok = false
			break
		}
		s := doCall(d, buf, call{op: "Skip", fn: e.Val[0], wt: e.Val[1]}, false, nil, nil)
		if s.St != "ok" {
			ok = false
			break
		}
		held = append(held, lastRaw)
	}
	// concatenate only now: every raw field is still held by the caller while the later ones are skipped
	for _, h := range held {
		cat = append(cat, h...)
	}
	st := "ok"
	if !ok {
		st = "err"
	}
	w.Emit(&tr.Ev{C: "cat", A: tr.Bytes(cat), St: st, Off: d.Offset()})
}

func main() {
	fam := flag.String("fam", "dom", "families")
	seed := flag.Int64("seed", 1, "seed")
	out := flag.String("out", "trace", "output prefix")
	shards := flag.Int("shards", 1, "number of shard files")
	alpha := flag.String("alphabet", "0,1,2,8,10,127,128,255", "domain alphabet")
	maxlen := flag.Int("maxlen", 3, "domain max length")
	thorough := flag.Bool("thorough", false, "thorough tier sizes")
	iters := flag.Int("iters", 2000, "iterations for random families")
	replay := flag.String("replay", "", "replay file: re-execute its events")
	intent := flag.String("intent", "", "file that always holds the call about to be made (read by the runner if this process dies in library code)")
	flag.Parse()
	if *intent != "" {
		f, ferr := os.Create(*intent)
		if ferr == nil {
			intentFile = f
		}
	}
	runtime.GOMAXPROCS(1)
	rng = rand.New(rand.NewSource(*seed))
	var paths []string
	for i := 0; i < *shards; i++ {
		paths = append(paths, fmt.Sprintf("%s.%d.ndjson", *out, i))
	}
	var err error
	w, err = tr.NewWriter(paths)
	if err != nil {
		fmt.Fprintln(os.Stderr, err)
		os.Exit(2)
	}
	var alphabet []byte
	for _, s := range strings.Split(*alpha, ",") {
		v, _ := strconv.Atoi(strings.TrimSpace(s))
		alphabet = append(alphabet, byte(v))
	}
	if *replay != "" {
		famReplay(*replay)
		*fam = ""
	}
	for _, f := range strings.Split(*fam, ",") {
		if f == "" {
			continue
		}
		switch f {
		case "dom":
			famDom(alphabet, *maxlen, true)
		case "seq":
			famSeq(*iters)
		case "rt":
			famRT(*thorough, false)
		case "ref":
			famRT(*thorough, true)
		case "skip":
			famSkip(*iters)
		case "nest":
			famNest(*thorough)
		case "prim":
			famPrim(*thorough)
		default:
			fmt.Fprintln(os.Stderr, "unknown family", f)
			os.Exit(2)
		}
	}
	w.Close()
	fmt.Printf("{\"events\": %d, \"per_shard\": %v}\n", w.N, jsonInts(w.Per))
	_ = io.EOF
}

func jsonInts(a []int) string {
	s := make([]string, len(a))
	for i, x := range a {
		s[i] = strconv.Itoa(x)
	}
	return "[" + strings.Join(s, ",") + "]"
}
