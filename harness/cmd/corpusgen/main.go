// Command corpusgen renders the schema corpus through the protoc plug-ins (no protoc needed: it
// speaks the plug-in protocol directly) and writes a Go module with the generated packages.
//
//	corpusgen -out <dir> -plugins <dir> [-sets name=params;...] [-flavours gogo,gv2] [-files a,b]
//
// For every (schema file, flavour, option set) it records in <out>/corpus.json: the generator's
// error (if any), the names of the files it emitted and two content hashes obtained from two runs in
// different working directories and environments (determinism), and whether each file parses as Go.
// Compilation is done afterwards by the caller (go build ./...).
package main

import (
	"bytes"
	"crypto/sha256"
	"encoding/hex"
	"encoding/json"
	"flag"
	"fmt"
	"go/parser"
	"go/token"
	"os"
	"os/exec"
	"path/filepath"
	"regexp"
	"sort"
	"strings"

	"google.golang.org/protobuf/proto"
	"google.golang.org/protobuf/reflect/protodesc"
	"google.golang.org/protobuf/reflect/protoreflect"
	"google.golang.org/protobuf/types/descriptorpb"
	"google.golang.org/protobuf/types/known/durationpb"
	"google.golang.org/protobuf/types/known/structpb"
	"google.golang.org/protobuf/types/known/timestamppb"
	"google.golang.org/protobuf/types/known/wrapperspb"
	"google.golang.org/protobuf/types/pluginpb"

	"verif/harness/corpus"
)

type genFile struct {
	Name    string `json:"name"`
	Sha1    string `json:"sha1"`
	Sha2    string `json:"sha2"`
	Sha3    string `json:"sha3"` // the same file generated as the SECOND file of a two-file request (empty: no such run)
	ParseOK bool   `json:"parse_ok"`
	ParseEr string `json:"parse_err"`
}

type entry struct {
	Base     string    `json:"base"`
	Flavour  string    `json:"flavour"`
	Set      string    `json:"set"`
	Params   string    `json:"params"`
	Syntax   string    `json:"syntax"`
	Features []string  `json:"features"`
	Messages []msgInfo `json:"messages"`
	GoPkg    string    `json:"go_pkg"`
	Dir      string    `json:"dir"`
	RtErr    string    `json:"runtime_gen_err"`
	GenErr   string    `json:"gen_err"`
	GenErr2  string    `json:"gen_err2"`
	GenErr3  string    `json:"gen_err3"`
	Multi    bool      `json:"multi"` // a two-file request (the previous corpus file of this flavour and option set first, this file second) was run
	Files    []genFile `json:"files"`
	DupNames []string  `json:"dup_names"`
}

type msgInfo struct {
	Full   string `json:"full"`   // protobuf full name
	GoName string `json:"goname"` // Go type name
	Short  string `json:"short"`  // short (last component) name
}

var wktFiles = map[string]protoreflect.FileDescriptor{
	"google/protobuf/timestamp.proto": timestamppb.File_google_protobuf_timestamp_proto,
	"google/protobuf/duration.proto":  durationpb.File_google_protobuf_duration_proto,
	"google/protobuf/struct.proto":    structpb.File_google_protobuf_struct_proto,
	"google/protobuf/wrappers.proto":  wrapperspb.File_google_protobuf_wrappers_proto,
}

func runPlugin(bin string, req *pluginpb.CodeGeneratorRequest, cwd string, env []string) (*pluginpb.CodeGeneratorResponse, string) {
	in, err := proto.Marshal(req)
	if err != nil {
		return nil, "marshal request: " + err.Error()
	}
	cmd := exec.Command(bin)
	cmd.Stdin = bytes.NewReader(in)
	cmd.Dir = cwd
	cmd.Env = append(os.Environ(), env...)
	var stdout, stderr bytes.Buffer
	cmd.Stdout, cmd.Stderr = &stdout, &stderr
	if err := cmd.Run(); err != nil {
		return nil, fmt.Sprintf("plug-in failed: %v: %s", err, strings.TrimSpace(stderr.String()))
	}
	var resp pluginpb.CodeGeneratorResponse
	if err := proto.Unmarshal(stdout.Bytes(), &resp); err != nil {
		return nil, "bad response: " + err.Error()
	}
	if resp.Error != nil {
		return &resp, "generator error: " + resp.GetError()
	}
	return &resp, ""
}

func collectMsgs(prefixFull, prefixGo string, ms []corpus.M, out *[]msgInfo) {
	for _, m := range ms {
		full := prefixFull + "." + m.Name
		goName := m.Name
		if prefixGo != "" {
			goName = prefixGo + "_" + m.Name
		}
		*out = append(*out, msgInfo{Full: strings.TrimPrefix(full, "."), GoName: goName, Short: m.Name})
		collectMsgs(full, goName, m.Nested, out)
	}
}

func sha(b []byte) string {
	h := sha256.Sum256(b)
	return hex.EncodeToString(h[:8])
}

func main() {
	out := flag.String("out", "", "output module directory")
	plugins := flag.String("plugins", "", "directory with protoc-gen-go, protoc-gen-gogo, protoc-gen-fastmarshal")
	sets := flag.String("sets", "default=", "option sets: name=params;name=params")
	flavours := flag.String("flavours", "gogo,gv2,gv1", "flavours")
	only := flag.String("files", "", "comma separated file bases (default all)")
	rseed := flag.Int64("rseed", 0, "seed of the random schemas")
	nrand := flag.Int("nrandom", 0, "number of seeded random schema files")
	paramProbe := flag.String("paramprobe", "", "file with the TLC-generated PARAM lines: run the plug-in once per (key, value) and write <out>/params.ndjson")
	flag.Parse()
	if *paramProbe != "" {
		probeParams(*paramProbe, *plugins, *out)
		return
	}
	if *out == "" || *plugins == "" {
		fmt.Fprintln(os.Stderr, "usage: corpusgen -out dir -plugins dir")
		os.Exit(2)
	}
	want := map[string]bool{}
	for _, b := range strings.Split(*only, ",") {
		if b != "" {
			want[b] = true
		}
	}
	var entries []entry
	alt := filepath.Join(*out, "altcwd")
	os.MkdirAll(alt, 0o755)
	for _, set := range strings.Split(*sets, ";") {
		if set == "" {
			continue
		}
		sp := strings.SplitN(set, "=", 2)
		setName, setParams := sp[0], ""
		if len(sp) == 2 {
			setParams = sp[1]
		}
		for _, fl := range strings.Split(*flavours, ",") {
			// the previous file of this (option set, flavour) that was generated with the same parameters: it goes first in a two-file request
			type prevReq struct {
				path, params string
				protos       []*descriptorpb.FileDescriptorProto
			}
			var prev *prevReq
			for _, f := range append(corpus.Files(), corpus.RandomFiles(*rseed, *nrand)...) {
				if len(want) > 0 && !want[f.Base] {
					continue
				}
				if len(f.Only) > 0 && !contains(f.Only, fl) {
					continue
				}
				if fl == "gv1" && (!corpus.LegacyV1Bases[f.Base] || setName != "default") {
					continue
				}
				// one protobuf package per (option set, flavour): all variants are linked into one driver binary
				f.Pkg = fmt.Sprintf("v%s%s.%s", setName, fl, f.Base)
				rel := filepath.Join("gen", setName, fl, f.Base)
				goPkg := "verif/corp/" + filepath.ToSlash(rel)
				protoPath := filepath.ToSlash(filepath.Join(rel, f.Base+".proto"))
				var localDep *descriptorpb.FileDescriptorProto
				if contains(f.Features, "local-import") {
					depRel := filepath.ToSlash(filepath.Join(rel, "api", "v1"))
					depPath := depRel + "/money.proto"
					localDep = &descriptorpb.FileDescriptorProto{
						Name: proto.String(depPath), Package: proto.String(f.LocalDepPkg()), Syntax: proto.String("proto3"),
						Options: &descriptorpb.FileOptions{GoPackage: proto.String("verif/corp/" + depRel + ";apiv1")},
						MessageType: []*descriptorpb.DescriptorProto{{Name: proto.String("Money"), Field: []*descriptorpb.FieldDescriptorProto{
							{Name: proto.String("currency"), Number: proto.Int32(1), Type: descriptorpb.FieldDescriptorProto_TYPE_STRING.Enum(), Label: descriptorpb.FieldDescriptorProto_LABEL_OPTIONAL.Enum(), JsonName: proto.String("currency")},
							{Name: proto.String("units"), Number: proto.Int32(2), Type: descriptorpb.FieldDescriptorProto_TYPE_INT64.Enum(), Label: descriptorpb.FieldDescriptorProto_LABEL_OPTIONAL.Enum(), JsonName: proto.String("units")}}}},
						EnumType: []*descriptorpb.EnumDescriptorProto{{Name: proto.String("Currency"), Value: []*descriptorpb.EnumValueDescriptorProto{
							{Name: proto.String("CUR_NONE"), Number: proto.Int32(0)}, {Name: proto.String("CUR_EUR"), Number: proto.Int32(1)}}}},
					}
					f.Deps = append(append([]string{}, f.Deps...), depPath)
				}
				fd := f.Descriptor(protoPath, goPkg)
				e := entry{Base: f.Base, Flavour: fl, Set: setName, Syntax: f.Syntax, Features: f.Features, GoPkg: goPkg, Dir: rel}
				collectMsgs("."+f.Pkg, "", f.Msgs, &e.Messages)
				var protos []*descriptorpb.FileDescriptorProto
				for _, d := range f.Deps {
					if localDep != nil && d == localDep.GetName() {
						continue
					}
					w, ok := wktFiles[d]
					if !ok {
						fmt.Fprintln(os.Stderr, "unknown dependency", d)
						os.Exit(2)
					}
					protos = append(protos, protodesc.ToFileDescriptorProto(w))
				}
				if localDep != nil {
					protos = append(protos, localDep)
				}
				protos = append(protos, fd)
				// sanity: the descriptor must be valid (a corpus bug otherwise)
				if _, err := protodesc.NewFiles(&descriptorpb.FileDescriptorSet{File: append(wktDeps(protos), protos...)}); err != nil {
					fmt.Fprintf(os.Stderr, "corpus: invalid descriptor for %s: %v\n", f.Base, err)
					os.Exit(2)
				}
				// 1. the runtime's own generator
				rtBin, api := "protoc-gen-go", "v2"
				if fl == "gogo" || fl == "gv1" {
					rtBin, api = "protoc-gen-gogo", "v1"
				}
				if localDep != nil {
					// the dependency gets the runtime's own generated code only (its own request: one Go package per request)
					depReq := &pluginpb.CodeGeneratorRequest{FileToGenerate: []string{localDep.GetName()}, Parameter: proto.String("paths=source_relative"),
						ProtoFile: []*descriptorpb.FileDescriptorProto{localDep}, CompilerVersion: &pluginpb.Version{Major: proto.Int32(5), Minor: proto.Int32(28), Patch: proto.Int32(3)}}
					dresp, derrs := runPlugin(filepath.Join(*plugins, rtBin), depReq, *out, nil)
					if derrs != "" {
						e.RtErr = derrs
						entries = append(entries, e)
						continue
					}
					for _, gf := range dresp.File {
						content := gf.GetContent()
						if fl == "gv1" {
							content = strings.ReplaceAll(content, `proto "github.com/gogo/protobuf/proto"`, `proto "github.com/golang/protobuf/proto"`)
							content = strings.ReplaceAll(content, "proto.GoGoProtoPackageIsVersion3", "proto.ProtoPackageIsVersion3")
						}
						writeFile(filepath.Join(*out, gf.GetName()), content)
					}
				}
				rtReq := &pluginpb.CodeGeneratorRequest{FileToGenerate: []string{protoPath}, Parameter: proto.String("paths=source_relative"), ProtoFile: protos,
					CompilerVersion: &pluginpb.Version{Major: proto.Int32(5), Minor: proto.Int32(28), Patch: proto.Int32(3)}}
				resp, errs := runPlugin(filepath.Join(*plugins, rtBin), rtReq, *out, nil)
				if errs != "" {
					e.RtErr = errs
					entries = append(entries, e)
					continue
				}
				for _, gf := range resp.File {
					content := gf.GetContent()
					if fl == "gv1" {
						// the legacy (pre-APIv2) google flavour: golang/protobuf-style structs with XXX_ methods that the
						// github.com/golang/protobuf runtime handles through its legacy wrapper
						content = strings.ReplaceAll(content, `proto "github.com/gogo/protobuf/proto"`, `proto "github.com/golang/protobuf/proto"`)
						content = strings.ReplaceAll(content, "proto.GoGoProtoPackageIsVersion3", "proto.ProtoPackageIsVersion3")
						content = strings.ReplaceAll(content, "proto.GoGoProtoPackageIsVersion2", "proto.ProtoPackageIsVersion3")
					}
					writeFile(filepath.Join(*out, gf.GetName()), content)
				}
				// 2. protoc-gen-fastmarshal, twice (different cwd, GOMAXPROCS, TZ)
				params := "paths=source_relative,apiversion=" + api
				if setParams != "" {
					params += "," + setParams
				}
				if f.Params != "" {
					params += "," + f.Params
				}
				e.Params = params
				fmReq := &pluginpb.CodeGeneratorRequest{FileToGenerate: []string{protoPath}, Parameter: proto.String(params), ProtoFile: protos,
					CompilerVersion: &pluginpb.Version{Major: proto.Int32(5), Minor: proto.Int32(28), Patch: proto.Int32(3)}}
				r1, err1 := runPlugin(filepath.Join(*plugins, "protoc-gen-fastmarshal"), fmReq, *out, []string{"GOMAXPROCS=1", "TZ=UTC"})
				r2, err2 := runPlugin(filepath.Join(*plugins, "protoc-gen-fastmarshal"), fmReq, alt, []string{"GOMAXPROCS=8", "TZ=Asia/Tokyo", "HOME=/nonexistent"})
				e.GenErr, e.GenErr2 = err1, err2
				// a request with two files to generate (`protoc a.proto b.proto`): what is emitted for a file must not depend on the
				// files generated before it in the same process
				third := map[string]string{}
				if prev != nil && prev.params == params && err1 == "" {
					have := map[string]bool{}
					var both []*descriptorpb.FileDescriptorProto
					for _, fp := range append(append([]*descriptorpb.FileDescriptorProto{}, prev.protos...), protos...) {
						if !have[fp.GetName()] {
							have[fp.GetName()] = true
							both = append(both, fp)
						}
					}
					multiReq := &pluginpb.CodeGeneratorRequest{FileToGenerate: []string{prev.path, protoPath}, Parameter: proto.String(params), ProtoFile: both,
						CompilerVersion: &pluginpb.Version{Major: proto.Int32(5), Minor: proto.Int32(28), Patch: proto.Int32(3)}}
					r3, err3 := runPlugin(filepath.Join(*plugins, "protoc-gen-fastmarshal"), multiReq, alt, []string{"GOMAXPROCS=2"})
					e.Multi, e.GenErr3 = true, err3
					if r3 != nil {
						for _, gf := range r3.File {
							third[gf.GetName()] = gf.GetContent()
						}
					}
				}
				if err1 == "" {
					prev = &prevReq{path: protoPath, params: params, protos: protos}
				}
				if r1 != nil && err1 == "" {
					second := map[string]string{}
					if r2 != nil {
						for _, gf := range r2.File {
							second[gf.GetName()] = gf.GetContent()
						}
					}
					seen := map[string]int{}
					for _, gf := range r1.File {
						seen[gf.GetName()]++
						g := genFile{Name: gf.GetName(), Sha1: sha([]byte(gf.GetContent())), Sha2: sha([]byte(second[gf.GetName()]))}
						if e.Multi {
							g.Sha3 = sha([]byte(third[gf.GetName()]))
						}
						if _, perr := parser.ParseFile(token.NewFileSet(), gf.GetName(), gf.GetContent(), parser.AllErrors); perr != nil {
							g.ParseEr = perr.Error()
						} else {
							g.ParseOK = true
						}
						e.Files = append(e.Files, g)
						if seen[gf.GetName()] == 1 {
							writeFile(filepath.Join(*out, gf.GetName()), gf.GetContent())
						}
					}
					for n, c := range seen {
						if c > 1 {
							e.DupNames = append(e.DupNames, n)
						}
					}
					sort.Strings(e.DupNames)
				}
				entries = append(entries, e)
			}
		}
	}
	os.RemoveAll(alt)
	b, _ := json.MarshalIndent(entries, "", " ")
	writeFile(filepath.Join(*out, "corpus.json"), string(b))
	fmt.Printf("{\"entries\": %d}\n", len(entries))
}

// wktDeps returns the transitive dependencies of the well-known files already present (none: they are self-contained)
func wktDeps([]*descriptorpb.FileDescriptorProto) []*descriptorpb.FileDescriptorProto { return nil }

func contains(a []string, s string) bool {
	for _, x := range a {
		if x == s {
			return true
		}
	}
	return false
}

func writeFile(p, content string) {
	os.MkdirAll(filepath.Dir(p), 0o755)
	if err := os.WriteFile(p, []byte(content), 0o644); err != nil {
		fmt.Fprintln(os.Stderr, err)
		os.Exit(2)
	}
}

var reParam = regexp.MustCompile(`<<"PARAM", "([^"]*)", "([^"]*)">>`)

// probeParams (C16, spec -> code): the plug-in is run on one small file with every (key, value) pair TLC printed from the bounded parameter
// domain of MCGenerator; a pair is accepted when the plug-in reports no error and emits a file.  An empty value is tried as "key=" and as
// the bare "key".
func probeParams(domain, plugins, out string) {
	raw, err := os.ReadFile(domain)
	if err != nil {
		fmt.Fprintln(os.Stderr, err)
		os.Exit(2)
	}
	fd := &descriptorpb.FileDescriptorProto{
		Name: proto.String("probe/probe.proto"), Package: proto.String("verif.probe"), Syntax: proto.String("proto3"),
		Options: &descriptorpb.FileOptions{GoPackage: proto.String("verif/corp/probe;probe")},
		MessageType: []*descriptorpb.DescriptorProto{{Name: proto.String("P"), Field: []*descriptorpb.FieldDescriptorProto{
			{Name: proto.String("size"), Number: proto.Int32(1), Type: descriptorpb.FieldDescriptorProto_TYPE_INT32.Enum(), Label: descriptorpb.FieldDescriptorProto_LABEL_OPTIONAL.Enum(), JsonName: proto.String("size")}}}},
	}
	os.MkdirAll(out, 0o755)
	f, err := os.Create(filepath.Join(out, "params.ndjson"))
	if err != nil {
		fmt.Fprintln(os.Stderr, err)
		os.Exit(2)
	}
	defer f.Close()
	n := 0
	for _, m := range reParam.FindAllStringSubmatch(string(raw), -1) {
		k, v := m[1], m[2]
		forms := []string{k + "=" + v}
		if v == "" {
			forms = append(forms, k)
		}
		for _, form := range forms {
			req := &pluginpb.CodeGeneratorRequest{FileToGenerate: []string{"probe/probe.proto"}, Parameter: proto.String("paths=source_relative," + form),
				ProtoFile: []*descriptorpb.FileDescriptorProto{fd}, CompilerVersion: &pluginpb.Version{Major: proto.Int32(5), Minor: proto.Int32(28), Patch: proto.Int32(3)}}
			resp, errs := runPlugin(filepath.Join(plugins, "protoc-gen-fastmarshal"), req, out, nil)
			ok := 0
			if errs == "" && resp != nil && len(resp.File) > 0 {
				ok = 1
			}
			if len(errs) > 200 {
				errs = errs[:200]
			}
			b, _ := json.Marshal(map[string]interface{}{"c": "param", "k": k, "v": v, "form": form, "ok": ok, "err": errs})
			f.Write(append(b, '\n'))
			n++
		}
	}
	fmt.Printf("{\"param_runs\": %d}\n", n)
}
