package main

// Family "def" (C13): builder scripts over lazyproto.Def emitted by TLC (MCLazyDef) are replayed on the real type; after
// every operation the whole structure, Validate and NewDecoder's acceptance are recorded for TraceLazyDef.

import (
	"fmt"
	"os"
	"sort"
	"strconv"
	"strings"

	"github.com/CrowdStrike/csproto/lazyproto"
)

const absent = -999

type DefEv struct {
	C       string  `json:"c"` // "defnew" | "defop"
	Kind    string  `json:"kind"`
	H       []int   `json:"h"`
	T       int     `json:"t"`
	Nts     []int   `json:"nts"`
	St      string  `json:"st"`
	Paths   [][]int `json:"paths"`
	Nest    [][]int `json:"nest"`
	Valid   int     `json:"valid"`
	Ndec    int     `json:"ndec"`    // NewDecoder(def) succeeded
	Ndecneg int     `json:"ndecneg"` // NewDecoder(def, WithMaxBufferSize(-2)) succeeded
	Ndecnil int     `json:"ndecnil"` // NewDecoder(def, WithBufferFilterFunc(nil)) succeeded
	Ndecopt int     `json:"ndecopt"` // NewDecoder(def, WithMaxBufferSize(0), WithBufferFilterFunc(f)) succeeded
	Getok   int     `json:"getok"`
	Getnest int     `json:"getnest"`
	Note    string  `json:"note"`
}

func walkDef(d lazyproto.Def, prefix []int, paths, nest *[][]int) {
	for k, v := range d {
		p := append(append([]int{}, prefix...), k)
		*paths = append(*paths, p)
		if v != nil {
			*nest = append(*nest, p)
			walkDef(v, p, paths, nest)
		}
	}
}

func sortPaths(ps [][]int) {
	sort.Slice(ps, func(i, j int) bool { return fmt.Sprint(ps[i]) < fmt.Sprint(ps[j]) })
}

func b2i(b bool) int {
	if b {
		return 1
	}
	return 0
}

func famDef(scriptFile string) {
	raw, err := os.ReadFile(scriptFile)
	if err != nil {
		fmt.Fprintln(os.Stderr, err)
		os.Exit(2)
	}
	n := 0
	for _, line := range strings.Split(string(raw), "\n") {
		line = strings.TrimSpace(line)
		if line == "" {
			continue
		}
		if n%50 == 0 {
			w.NextGroup()
		}
		n++
		root := lazyproto.NewDef()
		w.EmitAny(&DefEv{C: "defnew", H: []int{}, Nts: []int{}, Paths: [][]int{}, Nest: [][]int{}, St: "ok"})
		for _, ops := range strings.Split(line, ";") {
			f := strings.Fields(ops)
			if len(f) != 6 {
				fmt.Fprintln(os.Stderr, "bad script op:", ops)
				os.Exit(2)
			}
			var a [5]int
			for i := 0; i < 5; i++ {
				a[i], _ = strconv.Atoi(f[i+1])
			}
			e := &DefEv{C: "defop", Kind: f[0], H: []int{}, T: a[2], Nts: []int{}, Paths: [][]int{}, Nest: [][]int{}}
			for _, x := range a[:2] {
				if x != absent {
					e.H = append(e.H, x)
				}
			}
			for _, x := range a[3:] {
				if x != absent {
					e.Nts = append(e.Nts, x)
				}
			}
			func() {
				defer func() {
					if r := recover(); r != nil {
						e.St, e.Note = "panic", fmt.Sprint(r)
					}
				}()
				// the handle is reached the way a user reaches it: Get along the path
				cur := root
				for _, x := range e.H {
					v, ok := cur.Get(x)
					if !ok || v == nil {
						e.St, e.Note = "harness", "handle not found"
						return
					}
					cur = v
				}
				switch e.Kind {
				case "tags":
					ret := cur.Tags(append([]int{e.T}, e.Nts...)...)
					if len(ret) != len(cur) {
						e.Note = "Tags did not return the receiver"
					}
				case "nested":
					nd := cur.NestedTag(e.T, e.Nts...)
					if got, _ := cur.Get(e.T); got == nil || len(got) != len(nd) {
						e.Note = "NestedTag did not return the nested Def"
					}
				}
				v, ok := cur.Get(e.T)
				e.Getok, e.Getnest = b2i(ok), b2i(v != nil)
				walkDef(root, nil, &e.Paths, &e.Nest)
				sortPaths(e.Paths)
				sortPaths(e.Nest)
				e.Valid = b2i(root.Validate() == nil)
				_, err := lazyproto.NewDecoder(root)
				e.Ndec = b2i(err == nil)
				_, err = lazyproto.NewDecoder(root, lazyproto.WithMaxBufferSize(-2))
				e.Ndecneg = b2i(err == nil)
				_, err = lazyproto.NewDecoder(root, lazyproto.WithBufferFilterFunc(nil))
				e.Ndecnil = b2i(err == nil)
				_, err = lazyproto.NewDecoder(root, lazyproto.WithMaxBufferSize(0), lazyproto.WithBufferFilterFunc(func(c int) int { return c / 2 }))
				e.Ndecopt = b2i(err == nil)
				if e.St == "" {
					e.St = "ok"
				}
			}()
			w.EmitAny(e)
		}
	}
}
