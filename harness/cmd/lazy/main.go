// Command lazy records traces of lazyproto (Decode, Decoder, DecodeResult, FieldData) for
// validation against spec/TraceLazy.tla.  It serves C13, C14, C15 and the lazy half of C10.
//
// Families (flag -fam):
//
//	acc    every accessor / nested lookup / Range on results of random messages x definitions (C13)
//	pool   random operation histories on one pooled Decoder per option combination (C14)
//	conc   goroutines sharing one Decoder; per-goroutine value traces (run under -race) (C15)
//	own    as conc, with the pool hand-over hook recording globally sequenced get/put events (C15)
//	alias  values obtained in safe mode stay intact when the caller clobbers its input buffer (C10)
package main

import (
	"bytes"
	"errors"
	"flag"
	"fmt"
	"math"
	"math/rand"
	"os"
	"reflect"
	"runtime"
	"runtime/debug"
	"sort"
	"strings"
	"sync"
	"sync/atomic"

	"github.com/CrowdStrike/csproto"
	"github.com/CrowdStrike/csproto/lazyproto"
	"google.golang.org/protobuf/encoding/protowire"

	"verif/harness/tr"
)

// DefJ is the definition as data, shared with the TLA+ side.
type DefJ struct {
	Tags   []int     `json:"tags"`
	Nested []NestedJ `json:"nested"`
}
type NestedJ struct {
	Tag int  `json:"tag"`
	Def DefJ `json:"def"`
}

// LEv is the uniform event record of the lazy traces.
type LEv struct {
	C     string  `json:"c"`
	H     int     `json:"h"`
	Hp    int     `json:"hp"`
	Hs    []int   `json:"hs"`
	Buf   []int   `json:"buf"`
	Def   DefJ    `json:"def"`
	Mode  int     `json:"mode"`
	Entry string  `json:"entry"`
	Acc   string  `json:"acc"`
	Tag   int     `json:"tag"`
	All   int     `json:"all"`
	Path  []int   `json:"path"`
	St    string  `json:"st"`
	Val   []int   `json:"val"`
	Vals  [][]int `json:"vals"`
	Rng   [][]int `json:"rng"`
	Eq    int     `json:"eq"`
	Ptr   int     `json:"ptr"`
	G     int     `json:"g"`
	Seq   int     `json:"seq"`
	Ncl   int     `json:"ncl"`
	Nilcl int     `json:"nilcl"`
	Dl    []int   `json:"dl"`
	Opt   string  `json:"opt"`
	Note  string  `json:"note"`
}

func (e *LEv) norm() {
	if e.Hs == nil {
		e.Hs = []int{}
	}
	if e.Buf == nil {
		e.Buf = []int{}
	}
	if e.Path == nil {
		e.Path = []int{}
	}
	if e.Val == nil {
		e.Val = []int{}
	}
	if e.Vals == nil {
		e.Vals = [][]int{}
	}
	for i := range e.Vals {
		if e.Vals[i] == nil {
			e.Vals[i] = []int{}
		}
	}
	if e.Rng == nil {
		e.Rng = [][]int{}
	}
	if e.Dl == nil {
		e.Dl = []int{}
	}
	normDef(&e.Def)
}

func normDef(d *DefJ) {
	if d.Tags == nil {
		d.Tags = []int{}
	}
	if d.Nested == nil {
		d.Nested = []NestedJ{}
	}
	for i := range d.Nested {
		normDef(&d.Nested[i].Def)
	}
}

var (
	w   *tr.Writer
	rng *rand.Rand
)

func emit(e *LEv) {
	e.norm()
	w.EmitAny(e)
}

// ---------------------------------------------------------------------------------------------
// definitions

func defJ(d lazyproto.Def) DefJ {
	var j DefJ
	seen := map[int]bool{}
	for k, v := range d {
		a := k
		if a < 0 {
			a = -a
		}
		if !seen[a] {
			seen[a] = true
			j.Tags = append(j.Tags, a)
		}
		if v != nil {
			j.Nested = append(j.Nested, NestedJ{Tag: a, Def: defJ(v)})
		}
	}
	sort.Ints(j.Tags)
	sort.Slice(j.Nested, func(a, b int) bool { return j.Nested[a].Tag < j.Nested[b].Tag })
	return j
}

// ---------------------------------------------------------------------------------------------
// messages: value trees rendered with protowire (independent of csproto)

var tagPool = []int{1, 2, 3, 4, 5, 100, 1 << 28}

type shape int

const (
	shVarint shape = iota
	shFixed32
	shFixed64
	shString
	shPackedVarint
	shPackedFixed32
	shPackedFixed64
	shMessage
	nShapes
)

// values around the 32-bit range limits (as two's-complement 64-bit words), where the 32-bit accessors have to report overflow
var edges32 = []int64{math.MaxInt32, math.MaxInt32 - 1, math.MinInt32 - 1, math.MinInt32, math.MinInt32 + 1, -1 << 32, -1<<32 - 1, -1<<32 + 1, -3000000000,
	math.MaxInt32 + 1, math.MaxUint32, math.MaxUint32 + 1, math.MaxUint32 - 1, math.MinInt64, math.MaxInt64, math.MinInt64 + 1}

func rnd64(r *rand.Rand) uint64 {
	if r.Intn(6) == 0 {
		return uint64(edges32[r.Intn(len(edges32))])
	}
	switch r.Intn(7) {
	case 0:
		k := uint(r.Intn(65))
		if k == 64 {
			return math.MaxUint64
		}
		return uint64(1)<<k - uint64(r.Intn(2))
	case 1:
		return uint64(r.Intn(3))
	case 2:
		return uint64(int64(-r.Intn(200)))
	case 3:
		return uint64(r.Uint32())
	case 4:
		return uint64(int64(int32(r.Uint32())))
	default:
		return r.Uint64()
	}
}

func rndBytes(r *rand.Rand) []byte {
	n := []int{0, 0, 1, 2, 3, 5, 9}[r.Intn(7)]
	b := make([]byte, n)
	for i := range b {
		b[i] = byte(r.Intn(256))
	}
	return b
}

// genMessage renders a random well-formed message.  Each tag uses one shape (hence one wire type).
func genMessage(r *rand.Rand, depth int, shapes map[int]shape) []byte {
	var b []byte
	nf := r.Intn(6)
	for i := 0; i < nf; i++ {
		tag := tagPool[r.Intn(len(tagPool))]
		sh, ok := shapes[tag]
		if !ok {
			sh = shape(r.Intn(int(nShapes)))
			if depth >= 2 && sh == shMessage {
				sh = shString
			}
			shapes[tag] = sh
		}
		reps := 1
		if r.Intn(3) == 0 {
			reps = 1 + r.Intn(3)
		}
		for k := 0; k < reps; k++ {
			b = appendField(r, b, tag, sh, depth)
		}
	}
	return b
}

func appendField(r *rand.Rand, b []byte, tag int, sh shape, depth int) []byte {
	n := protowire.Number(tag)
	switch sh {
	case shVarint:
		b = appendKey(r, b, n, protowire.VarintType)
		b = protowire.AppendVarint(b, rnd64(r))
	case shFixed32:
		b = appendKey(r, b, n, protowire.Fixed32Type)
		b = protowire.AppendFixed32(b, r.Uint32())
	case shFixed64:
		b = appendKey(r, b, n, protowire.Fixed64Type)
		b = protowire.AppendFixed64(b, r.Uint64())
	case shString:
		b = appendKey(r, b, n, protowire.BytesType)
		b = protowire.AppendBytes(b, rndBytes(r))
	case shPackedVarint:
		var p []byte
		for i, k := 0, r.Intn(4); i < k; i++ {
			p = protowire.AppendVarint(p, rnd64(r))
		}
		b = appendKey(r, b, n, protowire.BytesType)
		b = protowire.AppendBytes(b, p)
	case shPackedFixed32:
		var p []byte
		for i, k := 0, r.Intn(4); i < k; i++ {
			p = protowire.AppendFixed32(p, r.Uint32())
		}
		b = appendKey(r, b, n, protowire.BytesType)
		b = protowire.AppendBytes(b, p)
	case shPackedFixed64:
		var p []byte
		for i, k := 0, r.Intn(3); i < k; i++ {
			p = protowire.AppendFixed64(p, r.Uint64())
		}
		b = appendKey(r, b, n, protowire.BytesType)
		b = protowire.AppendBytes(b, p)
	case shMessage:
		var p []byte
		if r.Intn(5) > 0 {
			p = genMessage(r, depth+1, nestedShapes(tag, depth))
		}
		b = appendKey(r, b, n, protowire.BytesType)
		b = protowire.AppendBytes(b, p)
	}
	return b
}

// appendKey writes the key of field n; now and then in one byte more than necessary (a well-formed encoding that encoders do not
// produce but parsers have to accept)
func appendKey(r *rand.Rand, b []byte, n protowire.Number, t protowire.Type) []byte {
	start := len(b)
	b = protowire.AppendTag(b, n, t)
	if r.Intn(12) == 0 && len(b)-start < 5 {
		b[len(b)-1] |= 0x80
		b = append(b, 0x00)
	}
	return b
}

// nested messages of the same (tag, depth) share a shape table so that sibling occurrences agree
var nestedShapeTables = map[[2]int]map[int]shape{}

func nestedShapes(tag, depth int) map[int]shape {
	k := [2]int{tag, depth}
	if m, ok := nestedShapeTables[k]; ok {
		return m
	}
	m := map[int]shape{}
	nestedShapeTables[k] = m
	return m
}

func mutate(r *rand.Rand, b []byte) []byte {
	b = append([]byte{}, b...)
	switch r.Intn(5) {
	case 0:
		if len(b) > 0 {
			b = b[:r.Intn(len(b))]
		}
	case 1:
		if len(b) > 0 {
			b[r.Intn(len(b))] = []byte{0, 1, 2, 0x7f, 0x80, 0xff, 8, 10, 0x0b, 0x0c}[r.Intn(10)]
		}
	case 2:
		n := r.Intn(12)
		b = make([]byte, n)
		for i := range b {
			b[i] = byte(r.Intn(256))
		}
	case 3: // a second wire type for an existing tag
		b = protowire.AppendTag(b, protowire.Number(tagPool[r.Intn(3)]), protowire.Type([]int{0, 1, 2, 5}[r.Intn(4)]))
		b = append(b, 1, 2, 3, 4, 5, 6, 7, 8)
	default:
		pos := 0
		if len(b) > 0 {
			pos = r.Intn(len(b))
		}
		pre := protowire.AppendVarint(nil, []uint64{127, 1 << 31, 1 << 63, math.MaxUint64}[r.Intn(4)])
		b = append(b[:pos], append(pre, b[pos:]...)...)
	}
	return b
}

// genDef: random definition over present and absent tags, with nesting for message-shaped tags
func genDef(r *rand.Rand, shapes map[int]shape, depth int) lazyproto.Def {
	d := lazyproto.NewDef()
	for _, t := range tagPool {
		if r.Intn(2) == 0 {
			continue
		}
		sh, present := shapes[t]
		wantNested := (present && sh == shMessage && r.Intn(4) > 0) || (r.Intn(8) == 0)
		if wantNested && depth < 3 {
			sub := genDef(r, nestedShapes(t, depth), depth+1)
			tags := make([]int, 0, len(sub))
			for k := range sub {
				tags = append(tags, k)
			}
			nd := d.NestedTag(t, tags...)
			for k, v := range sub {
				nd[k] = v
			}
			if r.Intn(3) == 0 {
				d.Tags(-t)
			}
		} else if r.Intn(5) == 0 {
			d.Tags(-t)
		} else {
			d.Tags(t)
		}
	}
	return d
}

// ---------------------------------------------------------------------------------------------
// results and accessors

type handle struct {
	id    int
	res   *lazyproto.DecodeResult
	def   lazyproto.Def
	top   bool
	live  bool
	kids  []*handle
	saved []savedVal
	mode  int
}

type savedVal struct {
	acc  string
	live interface{} // the very value the library handed out (slices keep aliasing whatever they alias)
	val  []int       // its rendering at hand-out time
	vals [][]int
}

var scalarAccs = []string{"Bool", "String", "Bytes", "UInt32", "Int32", "SInt32", "UInt64", "Int64", "SInt64", "Fixed32", "Fixed64", "Float32", "Float64"}
var sliceAccs = []string{"Bools", "Strings", "BytesS", "UInt32s", "Int32s", "SInt32s", "UInt64s", "Int64s", "SInt64s", "Fixed32s", "Fixed64s", "Float32s", "Float64s"}

func errClass(err error) string {
	var wtm *lazyproto.WireTypeMismatchError
	switch {
	case err == nil:
		return "ok"
	case errors.Is(err, lazyproto.ErrNestingNotDefined):
		return "nonesting"
	case errors.Is(err, lazyproto.ErrTagNotDefined):
		return "notdefined"
	case errors.Is(err, lazyproto.ErrTagNotFound):
		return "notfound"
	case errors.As(err, &wtm):
		return "mismatch"
	case errors.Is(err, csproto.ErrValueOverflow):
		return "overflow"
	}
	return "err"
}

func w64(v uint64) []int { return tr.Word(v) }

// accMethod maps the accessor names of the specification to lazyproto's method names.
func accMethod(acc string) string {
	switch acc {
	case "BytesS":
		return "BytesValues"
	case "Bools", "Strings", "UInt32s", "Int32s", "SInt32s", "UInt64s", "Int64s", "SInt64s", "Fixed32s", "Fixed64s", "Float32s", "Float64s":
		return strings.TrimSuffix(acc, "s") + "Values"
	}
	return acc + "Value"
}

// callMethod invokes the accessor by name on a *FieldData (no extra argument) or on a *DecodeResult (tag argument).
func callMethod(recv interface{}, acc string, args ...interface{}) (interface{}, error) {
	m := reflect.ValueOf(recv).MethodByName(accMethod(acc))
	if !m.IsValid() {
		panic("harness: no method " + accMethod(acc))
	}
	in := make([]reflect.Value, len(args))
	for i, a := range args {
		in[i] = reflect.ValueOf(a)
	}
	out := m.Call(in)
	var err error
	if !out[1].IsNil() {
		err = out[1].Interface().(error)
	}
	return out[0].Interface(), err
}

// fill converts an accessor result to the trace representation and collects the live slices/strings
// handed out, so that their stability can be checked later.
func fill(acc string, v interface{}, e *LEv) (sv savedVal) {
	defer func() {
		sv = savedVal{acc: acc, live: v, val: append([]int{}, e.Val...)}
		for _, x := range e.Vals {
			sv.vals = append(sv.vals, append([]int{}, x...))
		}
	}()
	fixed := strings.HasPrefix(acc, "Fixed") || strings.HasPrefix(acc, "Float")
	switch x := v.(type) {
	case bool:
		if x {
			e.Val = w64(1)
		} else {
			e.Val = w64(0)
		}
	case string:
		e.Val = tr.Bytes([]byte(x))
	case []byte:
		e.Val = tr.Bytes(x)
	case uint32:
		if fixed {
			e.Val = tr.LE32(x)
		} else {
			e.Val = w64(uint64(x))
		}
	case int32:
		e.Val = w64(uint64(int64(x)))
	case uint64:
		if fixed {
			e.Val = tr.LE64(x)
		} else {
			e.Val = w64(x)
		}
	case int64:
		e.Val = w64(uint64(x))
	case float32:
		e.Val = tr.F32(x)
	case float64:
		e.Val = tr.F64(x)
	case []bool:
		for _, y := range x {
			if y {
				e.Vals = append(e.Vals, w64(1))
			} else {
				e.Vals = append(e.Vals, w64(0))
			}
		}
	case []string:
		for _, y := range x {
			e.Vals = append(e.Vals, tr.Bytes([]byte(y)))
		}
	case [][]byte:
		for _, y := range x {
			e.Vals = append(e.Vals, tr.Bytes(y))
		}
	case []uint32:
		for _, y := range x {
			if fixed {
				e.Vals = append(e.Vals, tr.LE32(y))
			} else {
				e.Vals = append(e.Vals, w64(uint64(y)))
			}
		}
	case []int32:
		for _, y := range x {
			e.Vals = append(e.Vals, w64(uint64(int64(y))))
		}
	case []uint64:
		for _, y := range x {
			if fixed {
				e.Vals = append(e.Vals, tr.LE64(y))
			} else {
				e.Vals = append(e.Vals, w64(y))
			}
		}
	case []int64:
		for _, y := range x {
			e.Vals = append(e.Vals, w64(uint64(y)))
		}
	case []float32:
		for _, y := range x {
			e.Vals = append(e.Vals, tr.F32(y))
		}
	case []float64:
		for _, y := range x {
			e.Vals = append(e.Vals, tr.F64(y))
		}
	default:
		panic(fmt.Sprintf("harness: unexpected accessor result %T", v))
	}
	return sv
}

func sameInts(a, b []int) bool {
	if len(a) != len(b) {
		return false
	}
	for i := range a {
		if a[i] != b[i] {
			return false
		}
	}
	return true
}

// stillSame re-renders the live value and compares it with the rendering taken at hand-out time
func (sv *savedVal) stillSame() bool {
	var e LEv
	func() {
		defer func() { _ = recover() }()
		fillNoSave(sv.acc, sv.live, &e)
	}()
	if !sameInts(e.Val, sv.val) || len(e.Vals) != len(sv.vals) {
		return false
	}
	for i := range e.Vals {
		if !sameInts(e.Vals[i], sv.vals[i]) {
			return false
		}
	}
	return true
}

func fillNoSave(acc string, v interface{}, e *LEv) { fill(acc, v, e) }

// ctx is one recording context (one goroutine): its own handle numbering and event sink.
type ctx struct {
	r       *rand.Rand
	nh      int
	sink    func(*LEv)
	g       int
	viaRes  bool // use the DecodeResult.XxxValue(tag) helpers instead of FieldData for single tags
	noPtr   bool // do not touch the shared pointer table (race-detector runs: no harness-side synchronisation)
	handles []*handle
	// accessor calls that succeeded on each pooled result object, replayed when the pool hands the object out again: a value
	// cached inside the object by an earlier holder's call is then rewritten while the earlier holder's slices are still retained
	calls    map[int][]memCall
	replayed map[int]bool
}

type memCall struct {
	acc  string
	path []int
}

// remember / replayFor implement the accessor-call memory (sequential families only)
func (c *ctx) remember(h *handle, acc string, path []int) {
	if c.noPtr || h.res == nil || len(path) != 1 {
		return
	}
	if c.calls == nil {
		c.calls = map[int][]memCall{}
	}
	id := ptrID(h.res)
	if len(c.calls[id]) < 16 {
		c.calls[id] = append(c.calls[id], memCall{acc, append([]int{}, path...)})
	}
}

func (c *ctx) replayFor(h *handle) {
	if c.noPtr || h.res == nil || !h.live {
		return
	}
	id := ptrID(h.res)
	calls := c.calls[id]
	if len(calls) == 0 {
		return
	}
	c.calls[id] = nil // the replayed calls are remembered again by access()
	for _, mc := range calls {
		c.access(h, mc.acc, mc.path)
	}
}

func (c *ctx) newHandle(res *lazyproto.DecodeResult, def lazyproto.Def, top bool, mode int) *handle {
	c.nh++
	h := &handle{id: c.nh, res: res, def: def, top: top, live: true, mode: mode}
	c.handles = append(c.handles, h)
	return h
}

func (c *ctx) reset() {
	c.nh = 0
	c.handles = nil
	c.calls = nil
	c.sink(&LEv{C: "reset", G: c.g})
}

func guard(e *LEv, f func()) {
	defer func() {
		if r := recover(); r != nil {
			e.St = "panic"
			e.Note = fmt.Sprint(r)
		}
	}()
	f()
}

func snapshot(e *LEv, res *lazyproto.DecodeResult) {
	s := res.VerifSnapshot()
	e.Ncl, e.Nilcl, e.Dl = s.Closers, s.NilClosers, s.DataLens
}

// decode through a Decoder object
func (c *ctx) decodeObj(dec *lazyproto.Decoder, def lazyproto.Def, data []byte, mode int, opt string) *handle {
	e := &LEv{C: "decode", Buf: tr.Bytes(data), Def: defJ(def), Mode: mode, Entry: "obj", G: c.g, Opt: opt}
	var res *lazyproto.DecodeResult
	var err error
	guard(e, func() { res, err = dec.Decode(data) })
	if e.St == "" {
		if err != nil {
			e.St = "err"
			e.Note = err.Error()
		} else {
			e.St = "ok"
		}
	}
	h := c.newHandle(res, def, true, mode)
	h.live = e.St == "ok"
	e.H = h.id
	if res != nil && !c.noPtr {
		var fresh bool
		e.Ptr, fresh = ptrID2(res)
		if !fresh {
			atomic.AddInt64(&reuses, 1)
		}
		snapshot(e, res)
	}
	c.sink(e)
	if e.Ptr != 0 && c.g == 0 {
		c.replayFor(h)
	}
	return h
}

// decode through the deprecated package-level function
func (c *ctx) decodeFunc(def lazyproto.Def, data []byte) *handle {
	e := &LEv{C: "decode", Buf: tr.Bytes(data), Def: defJ(def), Mode: 0, Entry: "func", G: c.g}
	var res lazyproto.DecodeResult
	var err error
	guard(e, func() { res, err = lazyproto.Decode(data, def) })
	if e.St == "" {
		if err != nil {
			e.St = "err"
			e.Note = err.Error()
		} else {
			e.St = "ok"
		}
	}
	h := c.newHandle(&res, def, true, 0)
	h.live = e.St == "ok"
	e.H = h.id
	c.sink(e)
	return h
}

func (c *ctx) access(h *handle, acc string, path []int) {
	e := &LEv{C: "acc", H: h.id, Acc: acc, Path: path, Mode: h.mode, G: c.g}
	var err error
	var sv savedVal
	guard(e, func() {
		var v interface{}
		if len(path) == 1 && c.viaRes {
			// the typed helper methods of DecodeResult
			v, err = callMethod(h.res, acc, path[0])
		} else {
			var fd *lazyproto.FieldData
			fd, err = h.res.FieldData(path...)
			if err != nil {
				return
			}
			v, err = callMethod(fd, acc)
		}
		if err == nil {
			sv = fill(acc, v, e)
		}
	})
	if e.St == "" {
		e.St = errClass(err)
		if err != nil {
			e.Val, e.Vals = nil, nil
			e.Note = err.Error()
		}
	}
	if e.St == "ok" && h.mode == 0 {
		h.saved = append(h.saved, sv)
	}
	c.sink(e)
	if e.St == "ok" {
		c.remember(h, acc, path)
	}
}

func (c *ctx) nested(h *handle, tag int, all bool) []*handle {
	e := &LEv{C: "nested", Hp: h.id, Tag: tag, Mode: h.mode, G: c.g}
	var rs []*lazyproto.DecodeResult
	var err error
	guard(e, func() {
		if all {
			e.All = 1
			rs, err = h.res.NestedResults(tag)
		} else {
			var r1 *lazyproto.DecodeResult
			r1, err = h.res.NestedResult(tag)
			if err == nil {
				rs = []*lazyproto.DecodeResult{r1}
			}
		}
	})
	if e.St == "" {
		e.St = errClass(err)
		if err != nil {
			e.Note = err.Error()
		}
	}
	var out []*handle
	if e.St == "ok" {
		a := tag
		if a < 0 {
			a = -a
		}
		for _, r := range rs {
			nh := c.newHandle(r, h.def[a], false, h.mode)
			e.Hs = append(e.Hs, nh.id)
			h.kids = append(h.kids, nh)
			out = append(out, nh)
		}
	}
	c.sink(e)
	if c.g == 0 {
		for _, k := range out {
			c.replayFor(k)
		}
	}
	return out
}

func (c *ctx) rangeOver(h *handle) { c.rangeStop(h, 0) }

// rangeStop ranges over the result; stop > 0: the callback returns false at its stop-th call (recorded in the tag field)
func (c *ctx) rangeStop(h *handle, stop int) {
	e := &LEv{C: "range", H: h.id, Mode: h.mode, G: c.g, Tag: stop}
	guard(e, func() {
		h.res.Range(func(tag int, fd *lazyproto.FieldData) bool {
			p := 0
			if fd != nil {
				p = 1
			}
			e.Rng = append(e.Rng, []int{tag, p})
			return stop == 0 || len(e.Rng) < stop
		})
	})
	if e.St == "" {
		e.St = "ok"
	}
	c.sink(e)
}

// nilProbe calls the methods of a nil *DecodeResult and a nil *FieldData: 0 = no error, 1 = not-defined, 2 = not-found, 3 = another
// error, 4 = panic; for Range the number of callback calls
func (c *ctx) nilProbe() {
	var r *lazyproto.DecodeResult
	var fd *lazyproto.FieldData
	e := &LEv{C: "nilres", G: c.g, St: "ok"}
	code := func(f func() error) int {
		n := 4
		func() {
			defer func() { _ = recover() }()
			err := f()
			switch errClass(err) {
			case "ok":
				n = 0
			case "notdefined":
				n = 1
			case "notfound":
				n = 2
			default:
				n = 3
			}
		}()
		return n
	}
	e.Val = []int{
		code(func() error { return r.Close() }),
		code(func() error {
			calls := 0
			r.Range(func(int, *lazyproto.FieldData) bool { calls++; return true })
			if calls > 0 {
				return fmt.Errorf("visited")
			}
			return nil
		}),
		code(func() error { _, err := r.FieldData(1); return err }),
		code(func() error { _, err := r.FieldData(); return err }),
		code(func() error { _, err := r.GetFieldData(1); return err }),
		code(func() error { _, err := r.NestedResult(1); return err }),
		code(func() error { _, err := r.NestedResults(1); return err }),
		code(func() error { _, err := r.Int32Value(1); return err }),
		code(func() error { _, err := r.StringValues(1); return err }),
		code(func() error { _, err := fd.Int64Value(); return err }),
		code(func() error { _, err := fd.BytesValues(); return err }),
	}
	c.sink(e)
}

func kill(h *handle) {
	h.live = false
	for _, k := range h.kids {
		kill(k)
	}
}

func (c *ctx) close(h *handle) {
	e := &LEv{C: "close", H: h.id, Mode: h.mode, G: c.g}
	var err error
	guard(e, func() { err = h.res.Close() })
	if e.St == "" {
		if err != nil {
			e.St = "err"
		} else {
			e.St = "ok"
		}
	}
	kill(h)
	c.sink(e)
}

// check that values handed out in safe mode still hold what they held
func (c *ctx) checkStable(h *handle) {
	var all []*handle
	var walk func(*handle)
	walk = func(x *handle) {
		all = append(all, x)
		for _, k := range x.kids {
			walk(k)
		}
	}
	walk(h)
	eq := 1
	n := 0
	for _, x := range all {
		for i := range x.saved {
			n++
			if !x.saved[i].stillSame() {
				eq = 0
			}
		}
	}
	c.sink(&LEv{C: "chk", H: h.id, Mode: h.mode, Eq: eq, G: c.g, Ncl: n})
}

// exercise: every accessor on a selection of tags, nested lookups, paths, Range
func (c *ctx) exercise(h *handle, depth int, full bool) {
	if !h.live {
		return
	}
	tags := append([]int{}, tagPool...)
	tags = append(tags, 7, -1, -3)
	for _, t := range tags {
		// declared tags are where values flow: most accessors most of the time; undeclared ones now and then
		_, declared := h.def[t]
		if !full && !declared && c.r.Intn(3) > 0 {
			continue
		}
		for _, a := range scalarAccs {
			if full || (declared && c.r.Intn(2) == 0) || c.r.Intn(3) == 0 {
				c.access(h, a, []int{t})
			}
		}
		for _, a := range sliceAccs {
			if full || (declared && c.r.Intn(2) == 0) || c.r.Intn(3) == 0 {
				c.access(h, a, []int{t})
			}
		}
	}
	c.rangeOver(h)
	if c.r.Intn(3) == 0 {
		c.rangeStop(h, 1+c.r.Intn(3))
	}
	if c.r.Intn(4) == 0 {
		c.access(h, scalarAccs[c.r.Intn(len(scalarAccs))], []int{}) // FieldData() without a tag: an error
	}
	if c.r.Intn(8) == 0 {
		c.nilProbe()
	}
	// nested lookups on declared nested tags and on a few others
	for _, t := range tagPool[:6] {
		_, isNested := h.def[t]
		if h.def[t] == nil {
			isNested = false
		}
		if !isNested && c.r.Intn(4) > 0 {
			continue
		}
		// paths through FieldData(t, t2)
		if isNested {
			for _, t2 := range tagPool[:4] {
				acc := append(append([]string{}, scalarAccs...), sliceAccs...)[c.r.Intn(26)]
				c.access(h, acc, []int{t, t2})
			}
		}
		tt := t
		if c.r.Intn(6) == 0 {
			tt = -t
		}
		var kids []*handle
		if c.r.Intn(2) == 0 {
			kids = c.nested(h, tt, false)
		} else {
			kids = c.nested(h, tt, true)
		}
		if depth < 2 {
			for _, k := range kids {
				c.exercise(k, depth+1, false)
			}
		}
	}
}

// ---------------------------------------------------------------------------------------------
// pointer identities and the pool hook

var reuses int64

var (
	ptrMu  sync.Mutex
	ptrIDs = map[*lazyproto.DecodeResult]int{}
)

// ptrID maps result objects to small stable ids; holding the pointers keeps addresses from being reused.
func ptrID(r *lazyproto.DecodeResult) int {
	id, _ := ptrID2(r)
	return id
}

func ptrID2(r *lazyproto.DecodeResult) (int, bool) {
	ptrMu.Lock()
	defer ptrMu.Unlock()
	id, ok := ptrIDs[r]
	if !ok {
		id = len(ptrIDs) + 1
		ptrIDs[r] = id
	}
	return id, !ok
}

// ---------------------------------------------------------------------------------------------
// families

type optSet struct {
	name   string
	mode   int
	maxBuf int // -1 none
	filter int // 0 none, 1 halve, 2 zero
}

func (o optSet) options() []lazyproto.Option {
	var os []lazyproto.Option
	if o.mode == 1 {
		os = append(os, lazyproto.WithMode(csproto.DecoderModeFast))
	}
	if o.maxBuf >= 0 {
		os = append(os, lazyproto.WithMaxBufferSize(o.maxBuf))
	}
	switch o.filter {
	case 1:
		os = append(os, lazyproto.WithBufferFilterFunc(func(c int) int { return c / 2 }))
	case 2:
		os = append(os, lazyproto.WithBufferFilterFunc(func(c int) int { return 0 }))
	}
	return os
}

func allOptSets() []optSet {
	var out []optSet
	for mode := 0; mode <= 1; mode++ {
		for _, mb := range []int{-1, 0, 1, 2, 64} {
			for f := 0; f <= 2; f++ {
				out = append(out, optSet{fmt.Sprintf("mode=%d,max=%d,filter=%d", mode, mb, f), mode, mb, f})
			}
		}
	}
	return out
}

func famAcc(iters int) {
	c := &ctx{r: rng, sink: emit}
	for it := 0; it < iters; it++ {
		shapes := map[int]shape{}
		nestedShapeTables = map[[2]int]map[int]shape{}
		msg := genMessage(rng, 0, shapes)
		if rng.Intn(6) == 0 {
			msg = mutate(rng, msg)
		}
		if rng.Intn(25) == 0 {
			msg = nil
		}
		def := genDef(rng, shapes, 0)
		if it%7 == 3 {
			// input that ends in k bytes which all have the continuation bit set (k = 1..10: an unterminated varint as long as a
			// varint may be): as a value, as a key, as a length prefix, at the end of a nested payload and of a packed run
			k := (it/7)%10 + 1
			open := bytes.Repeat([]byte{0xff}, k)
			switch (it / 70) % 5 {
			case 0:
				msg = append(protowire.AppendTag(msg, 1, protowire.VarintType), open...)
			case 1:
				msg = append(msg, open...)
			case 2:
				msg = append(protowire.AppendTag(msg, 2, protowire.BytesType), open...)
			case 3:
				msg = protowire.AppendBytes(protowire.AppendTag(msg, 3, protowire.BytesType), append([]byte{0x08}, open...))
			default:
				msg = protowire.AppendBytes(protowire.AppendTag(msg, 4, protowire.BytesType), append([]byte{0x01, 0x02}, open...))
			}
		}
		edgeIter := it%5 == 2
		if edgeIter {
			// every value around the 32-bit limits, in turn, as a single varint, a repeated varint and a packed run - with every accessor
			k := (it / 5) % len(edges32)
			e0, e1, e2 := uint64(edges32[k]), uint64(edges32[(k+1)%len(edges32)]), uint64(edges32[(k+5)%len(edges32)])
			msg = nil
			msg = protowire.AppendTag(msg, 1, protowire.VarintType)
			msg = protowire.AppendVarint(msg, e0)
			for _, v := range []uint64{e1, e0, e2} {
				msg = protowire.AppendTag(msg, 2, protowire.VarintType)
				msg = protowire.AppendVarint(msg, v)
			}
			var p []byte
			for _, v := range []uint64{e2, e0} {
				p = protowire.AppendVarint(p, v)
			}
			msg = protowire.AppendTag(msg, 3, protowire.BytesType)
			msg = protowire.AppendBytes(msg, p)
			def = lazyproto.NewDef(1, 2, 3)
		}
		w.NextGroup()
		c.reset()
		c.viaRes = rng.Intn(2) == 0
		// entry point 1: the package-level function (safe mode, no pool)
		if rng.Intn(3) == 0 {
			h := c.decodeFunc(def, msg)
			if h.live {
				c.exercise(h, 0, rng.Intn(4) == 0)
				c.close(h)
			}
			continue
		}
		o := allOptSets()[rng.Intn(len(allOptSets()))]
		dec, err := lazyproto.NewDecoder(def, o.options()...)
		if err != nil {
			fmt.Fprintln(os.Stderr, "harness: NewDecoder:", err)
			continue
		}
		if it%2 == 0 {
			// the Decoder has a history: another message of the same shapes whose decoding fails in its LAST field, after the requested
			// tags before it were recorded - nothing of it may show in the result of the next, well-formed message
			spoil := append(genMessage(rng, 0, shapes), 0x0a, 0x05, 0x01)
			if hs := c.decodeObj(dec, def, spoil, o.mode, o.name); hs.live {
				c.close(hs)
			}
		}
		h := c.decodeObj(dec, def, msg, o.mode, o.name)
		if h.live {
			c.exercise(h, 0, edgeIter || rng.Intn(4) == 0)
			c.close(h)
			if o.mode == 0 {
				c.checkStable(h)
			}
		}
	}
}

// inputs with deliberately different shapes for the pool histories: varint (1), bytes (2, 4), fixed32 (5) and fixed64 (6) fields, a repeated
// nested message (3) that itself holds a nested message (7): two levels of pooled nested results
func poolInputs(r *rand.Rand) (lazyproto.Def, [][]byte) {
	def := lazyproto.NewDef(1, 2, 4, 5, 6)
	nd := def.NestedTag(3, 1, 2)
	nd.NestedTag(7, 1)
	def.Tags(-3)
	level2 := func() []byte {
		var q []byte
		for k, kk := 0, r.Intn(3); k < kk; k++ {
			q = protowire.AppendTag(q, 1, protowire.VarintType)
			q = protowire.AppendVarint(q, rnd64(r))
		}
		return q
	}
	mk := func(n1, n2, nNested int, big bool) []byte {
		var b []byte
		for i := 0; i < n1; i++ {
			b = protowire.AppendTag(b, 1, protowire.VarintType)
			b = protowire.AppendVarint(b, rnd64(r))
		}
		for i := 0; i < n2; i++ {
			b = protowire.AppendTag(b, 2, protowire.BytesType)
			s := rndBytes(r)
			if big {
				s = append(s, make([]byte, 40)...)
			}
			b = protowire.AppendBytes(b, s)
		}
		// fixed-width fields: as many as varint ones (none when there are none: shapes differ between inputs)
		for i := 0; i < n1; i++ {
			b = protowire.AppendTag(b, 5, protowire.Fixed32Type)
			b = protowire.AppendFixed32(b, r.Uint32())
			if i%2 == 0 {
				b = protowire.AppendTag(b, 6, protowire.Fixed64Type)
				b = protowire.AppendFixed64(b, r.Uint64())
			}
		}
		for i := 0; i < nNested; i++ {
			var p []byte
			for k, kk := 0, r.Intn(3); k < kk; k++ {
				p = protowire.AppendTag(p, 1, protowire.VarintType)
				p = protowire.AppendVarint(p, rnd64(r))
			}
			if r.Intn(2) == 0 {
				p = protowire.AppendTag(p, 2, protowire.BytesType)
				p = protowire.AppendBytes(p, rndBytes(r))
			}
			if r.Intn(2) == 0 {
				p = protowire.AppendTag(p, 7, protowire.BytesType)
				p = protowire.AppendBytes(p, level2())
			}
			b = protowire.AppendTag(b, 3, protowire.BytesType)
			b = protowire.AppendBytes(b, p)
		}
		if len(b) == 0 {
			b = protowire.AppendTag(b, 9, protowire.VarintType)
			b = protowire.AppendVarint(b, 1)
		}
		return b
	}
	// a well-formed message whose repeated nested field holds decodable elements followed by one that is not a message
	// (NestedResults fails after having taken nested results from the pool), then a decodable one again
	badNested := mk(1, 0, 2, false)
	badNested = protowire.AppendTag(badNested, 3, protowire.BytesType)
	badNested = protowire.AppendBytes(badNested, []byte{0x08, 0x80}) // truncated varint inside the nested payload
	badNested = append(badNested, mk(0, 0, 1, false)...)
	ins := [][]byte{
		mk(0, 0, 0, false), mk(1, 0, 0, false), mk(3, 1, 0, false), mk(0, 3, 2, false),
		mk(1, 1, 3, false), mk(5, 0, 5, true), mk(2, 2, 1, false), badNested,
		// malformed: requested fields first, then a truncated tail (the decode fails after values were captured), and a bare truncated key
		append(mk(3, 2, 1, false), 0x08, 0x80), {0x08},
		{}, // the zero-length input: the valid encoding of an all-default message
	}
	return def, ins
}

// scripted pool histories, one per hazard a pooled result is exposed to, run on every option set before the random histories: what a
// result holds when it comes back from the pool must be invisible, whatever happened to it in its previous life
func (c *ctx) poolScenarios(dec *lazyproto.Decoder, def lazyproto.Def, o optSet) {
	field := func(b []byte, n protowire.Number, payload []byte) []byte {
		return protowire.AppendBytes(protowire.AppendTag(b, n, protowire.BytesType), payload)
	}
	var closed []*handle
	closeH := func(h *handle) {
		if h != nil && h.live {
			c.close(h)
			closed = append(closed, h)
		}
	}
	probeNested := func(h *handle, all bool) {
		for _, k := range c.nested(h, 3, all) {
			for _, acc := range []string{"Int64", "UInt64s", "Bytes", "BytesS"} {
				c.access(k, acc, []int{map[string]int{"Int64": 1, "UInt64s": 1, "Bytes": 2, "BytesS": 2}[acc]})
			}
			c.rangeOver(k)
			for _, kk := range c.nested(k, 7, false) {
				c.access(kk, "Int64", []int{1})
				c.access(kk, "UInt64s", []int{1})
				c.rangeOver(kk)
			}
		}
		c.access(h, "Int64", []int{3, 1})
		c.access(h, "Int64", []int{3, 7, 1})
	}
	// 1. a nested result recycled after a decode that failed half way: the nested payload is malformed AFTER a defined field was read
	good := field([]byte{0x08, 0x01}, 3, []byte{0x08, 0x05, 0x12, 0x01, 'x'})
	half := field([]byte{0x08, 0x02}, 3, []byte{0x08, 0x07, 0x10})       // field 1 = 7, then a key without value
	absent := field([]byte{0x08, 0x03}, 3, []byte{0x12, 0x02, 'y', 'z'}) // no field 1 in the nested message
	for _, all := range []bool{false, true} {
		for _, in := range [][]byte{good, half, absent, half, good, absent} {
			h := c.decodeObj(dec, def, in, o.mode, o.name)
			if h.live {
				probeNested(h, all)
			}
			closeH(h)
		}
	}
	// 2. two levels of nesting reached twice across a Close, a third result decoded while the second is open
	lvl2 := func(v byte, s string) []byte {
		inner := field([]byte{0x08, v}, 7, []byte{0x08, v + 1})
		return field(field([]byte{0x08, v}, 2, []byte(s)), 3, inner)
	}
	hA := c.decodeObj(dec, def, lvl2(10, "AAAA"), o.mode, o.name)
	probeNested(hA, false)
	closeH(hA)
	hB := c.decodeObj(dec, def, lvl2(20, "BBBB"), o.mode, o.name)
	probeNested(hB, false)
	hC := c.decodeObj(dec, def, lvl2(30, "CC"), o.mode, o.name)
	probeNested(hC, false)
	if hB.live {
		probeNested(hB, false) // B again, now that C took results from the pools
		c.access(hB, "Bytes", []int{2})
	}
	closeH(hC)
	closeH(hB)
	// 2b. Close on a nested handle AFTER its parent was closed (a deferred nested.Close() that runs late: it never has any effect), then
	// a message with several nested elements: each element's result has to be an object of its own
	one := field([]byte{0x08, 0x01}, 3, []byte{0x08, 0x07})
	many := field(field(field([]byte{0x08, 0x02}, 3, []byte{0x08, 0x07}), 3, []byte{0x08, 0x08}), 3, []byte{0x08, 0x09, 0x12, 0x01, 'q'})
	for round := 0; round < 2; round++ {
		hs := c.decodeObj(dec, def, one, o.mode, o.name)
		var stale []*handle
		if hs.live {
			stale = append(c.nested(hs, 3, round == 0), c.nested(hs, 3, round == 1)...)
		}
		closeH(hs)
		for _, k := range stale {
			c.close(k)
		}
		hm := c.decodeObj(dec, def, many, o.mode, o.name)
		if hm.live {
			probeNested(hm, true)
			probeNested(hm, false)
		}
		closeH(hm)
	}
	// 3. every slice accessor on a tag of its own wire type: result kept by the caller, Close, the next result of a different length
	fixed := func(n int) []byte {
		var b []byte
		for i := 0; i < n; i++ {
			b = protowire.AppendVarint(protowire.AppendTag(b, 1, protowire.VarintType), uint64(100*n+i))
			b = field(b, 2, []byte{byte('a' + n), byte('a' + i)})
			b = protowire.AppendFixed32(protowire.AppendTag(b, 5, protowire.Fixed32Type), uint32(1000*n+i))
			b = protowire.AppendFixed64(protowire.AppendTag(b, 6, protowire.Fixed64Type), uint64(100000*n+i))
		}
		return b
	}
	accOf := map[int][]string{1: {"Bools", "UInt32s", "Int32s", "SInt32s", "UInt64s", "Int64s", "SInt64s"}, 2: {"Strings", "BytesS"},
		5: {"Fixed32s", "Float32s", "UInt32s"}, 6: {"Fixed64s", "Float64s", "UInt64s"}}
	for _, n := range []int{3, 1, 4, 2} {
		h := c.decodeObj(dec, def, fixed(n), o.mode, o.name)
		if h.live {
			for _, t := range []int{1, 2, 5, 6} {
				for _, acc := range accOf[t] {
					c.access(h, acc, []int{t})
				}
			}
		}
		closeH(h)
		if o.mode == 0 {
			for _, x := range closed {
				c.checkStable(x)
			}
		}
	}
}

func famPool(iters int, histLen int) {
	debug.SetGCPercent(-1) // keep sync.Pool contents: reuse is what the histories are about
	c := &ctx{r: rng, sink: emit}
	opts := allOptSets()
	for it := 0; it < iters; it++ {
		o := opts[it%len(opts)]
		def, ins := poolInputs(rng)
		dec, err := lazyproto.NewDecoder(def, o.options()...)
		if err != nil {
			fmt.Fprintln(os.Stderr, "harness: NewDecoder:", err)
			continue
		}
		w.NextGroup()
		c.reset()
		var live []*handle
		var closed []*handle
		if it < len(opts) {
			// every option set once: the scripted histories, then the random ones on the same decoder (and the same pools)
			c.poolScenarios(dec, def, o)
		}
		for step := 0; step < histLen; step++ {
			switch r := rng.Intn(10); {
			case r < 3 && len(live) < 3:
				h := c.decodeObj(dec, def, ins[rng.Intn(len(ins))], o.mode, o.name)
				if h.live {
					live = append(live, h)
				}
			case r < 6 && len(live) > 0:
				h := pickLive(live)
				if h == nil {
					continue
				}
				acc := append(append([]string{}, scalarAccs...), sliceAccs...)[rng.Intn(26)]
				t := []int{1, 2, 3, 4, -3, 7, 5, 6}[rng.Intn(8)]
				// most of the time an accessor that fits the tag's wire type, so that values really flow
				if rng.Intn(10) < 7 {
					switch t {
					case 1:
						acc = []string{"UInt64s", "Int64s", "SInt64s", "Bools", "UInt64", "Int64", "Bool"}[rng.Intn(7)]
					case 5:
						acc = []string{"Fixed32s", "Float32s", "Fixed32", "Float32", "UInt32s"}[rng.Intn(5)]
					case 6:
						acc = []string{"Fixed64s", "Float64s", "Fixed64", "Float64", "UInt64s"}[rng.Intn(5)]
					default:
						acc = []string{"BytesS", "Strings", "Bytes", "String", "BytesS", "Strings"}[rng.Intn(6)]
					}
				}
				if rng.Intn(4) == 0 {
					c.access(h, acc, []int{3, []int{1, 2, 5}[rng.Intn(3)]})
				} else {
					c.access(h, acc, []int{t})
				}
			case r < 8 && len(live) > 0:
				h := pickLive(live)
				if h == nil {
					continue
				}
				kids := c.nested(h, []int{3, 3, 3, 1, -3, 7, 7}[rng.Intn(7)], rng.Intn(2) == 0)
				for _, k := range kids {
					if rng.Intn(2) == 0 {
						c.access(k, scalarAccs[rng.Intn(len(scalarAccs))], []int{[]int{1, 2}[rng.Intn(2)]})
					}
					if rng.Intn(3) == 0 {
						c.access(k, sliceAccs[rng.Intn(len(sliceAccs))], []int{[]int{1, 2}[rng.Intn(2)]})
					}
				}
			case r < 9 && len(live) > 0:
				h := pickLive(live)
				if h != nil {
					c.rangeOver(h)
				}
			default:
				if len(live) > 0 {
					i := rng.Intn(len(live))
					h := live[i]
					live = append(live[:i], live[i+1:]...)
					c.close(h)
					closed = append(closed, h)
					if o.mode == 0 {
						c.checkStable(h)
					}
				}
			}
		}
		for _, h := range live {
			c.close(h)
			closed = append(closed, h)
		}
		if o.mode == 0 {
			for _, h := range closed {
				c.checkStable(h)
			}
		}
	}
}

// pickLive returns a random live handle among the top-level ones and their nested results
func pickLive(live []*handle) *handle {
	var all []*handle
	var walk func(*handle)
	walk = func(x *handle) {
		if x.live {
			all = append(all, x)
		}
		for _, k := range x.kids {
			walk(k)
		}
	}
	for _, h := range live {
		walk(h)
	}
	if len(all) == 0 {
		return nil
	}
	return all[rng.Intn(len(all))]
}

// famConc: G goroutines share one Decoder.  Each goroutine records into its own buffer (no
// synchronisation is added by the harness between the library calls); with own=true the pool
// hook records globally sequenced get/put events.
func famConc(G, iters int, own bool, procs int, seed int64) {
	runtime.GOMAXPROCS(procs)
	def, _ := poolInputs(rng)
	opts := []optSet{{"mode=0,max=-1,filter=0", 0, -1, 0}, {"mode=0,max=1,filter=1", 0, 1, 1}, {"mode=1,max=2,filter=0", 1, 2, 0}}
	for _, o := range opts {
		dec, err := lazyproto.NewDecoder(def, o.options()...)
		if err != nil {
			continue
		}
		var seq int64
		var ownMu sync.Mutex
		var ownEvents []*LEv
		if own {
			lazyproto.VerifHook = func(ev string, r *lazyproto.DecodeResult) {
				s := atomic.AddInt64(&seq, 1)
				e := &LEv{C: map[string]string{"pool.get": "get", "pool.put": "put"}[ev], Ptr: ptrID(r), Seq: int(s)}
				ownMu.Lock()
				ownEvents = append(ownEvents, e)
				ownMu.Unlock()
			}
		} else {
			lazyproto.VerifHook = nil
		}
		bufs := make([][]*LEv, G)
		var wg sync.WaitGroup
		for g := 0; g < G; g++ {
			wg.Add(1)
			go func(g int) {
				defer wg.Done()
				r := rand.New(rand.NewSource(seed*1000 + int64(g)))
				c := &ctx{r: r, g: g + 1, noPtr: !own}
				c.sink = func(e *LEv) { bufs[g] = append(bufs[g], e) }
				c.reset()
				for it := 0; it < iters; it++ {
					_, ins := poolInputs(r)
					in := ins[r.Intn(len(ins))] // including the malformed ones: a failed decode must not leave anything behind in the pool
					h := c.decodeObj(dec, def, in, o.mode, o.name)
					if !h.live {
						continue
					}
					if r.Intn(4) == 0 {
						runtime.Gosched()
					}
					for k := 0; k < 3; k++ {
						acc := append(append([]string{}, scalarAccs...), sliceAccs...)[r.Intn(26)]
						c.access(h, acc, []int{[]int{1, 2, 3, 4}[r.Intn(4)]})
					}
					if r.Intn(2) == 0 {
						kids := c.nested(h, 3, r.Intn(2) == 0)
						for _, kd := range kids {
							c.access(kd, "UInt64s", []int{1})
							c.access(kd, "Bytes", []int{2})
							if r.Intn(4) == 0 {
								runtime.Gosched()
							}
						}
					}
					if r.Intn(3) == 0 {
						c.rangeOver(h)
					}
					c.close(h)
					// keep the per-goroutine model state small
					if it%50 == 49 {
						c.reset()
					}
				}
			}(g)
		}
		wg.Wait()
		lazyproto.VerifHook = nil
		w.NextGroup()
		if own {
			sort.Slice(ownEvents, func(a, b int) bool { return ownEvents[a].Seq < ownEvents[b].Seq })
			for _, e := range ownEvents {
				emit(e)
			}
		}
		for g := 0; g < G; g++ {
			w.NextGroup()
			for _, e := range bufs[g] {
				emit(e)
			}
		}
	}
}

// famAlias (C10, lazy half): decode in safe mode, read values, then clobber / truncate / recycle the
// caller's input buffer and check that the values read earlier are intact.
func famAlias(iters int) {
	c := &ctx{r: rng, sink: emit}
	for it := 0; it < iters; it++ {
		shapes := map[int]shape{}
		nestedShapeTables = map[[2]int]map[int]shape{}
		msg := genMessage(rng, 0, shapes)
		if len(msg) == 0 {
			continue
		}
		def := genDef(rng, shapes, 0)
		w.NextGroup()
		c.reset()
		input := append([]byte{}, msg...)
		var h *handle
		if rng.Intn(2) == 0 {
			h = c.decodeFunc(def, input)
		} else {
			dec, err := lazyproto.NewDecoder(def)
			if err != nil {
				continue
			}
			h = c.decodeObj(dec, def, input, 0, "safe")
		}
		if !h.live {
			continue
		}
		c.exercise(h, 0, true)
		// the caller now reuses its buffer
		switch rng.Intn(3) {
		case 0:
			for i := range input {
				input[i] = 0xEE
			}
		case 1:
			for i := range input {
				input[i] ^= 0xFF
			}
		default:
			other := genMessage(rng, 0, map[int]shape{})
			copy(input, other)
		}
		c.checkStable(h)
		// values read after the clobbering must still be those of the original message:
		// the model still holds the original bytes for this handle
		c.exercise(h, 0, false)
		c.close(h)
		c.checkStable(h)
	}
}

func main() {
	fam := flag.String("fam", "acc", "families")
	seed := flag.Int64("seed", 1, "seed")
	out := flag.String("out", "trace", "output prefix")
	shards := flag.Int("shards", 1, "number of shard files")
	iters := flag.Int("iters", 300, "iterations")
	hist := flag.Int("hist", 40, "history length for the pool family")
	G := flag.Int("g", 8, "goroutines for conc/own")
	procs := flag.Int("procs", 4, "GOMAXPROCS for conc/own")
	scripts := flag.String("scripts", "", "builder scripts for the def family")
	flag.Parse()
	rng = rand.New(rand.NewSource(*seed))
	var paths []string
	for i := 0; i < *shards; i++ {
		paths = append(paths, fmt.Sprintf("%s.%d.ndjson", *out, i))
	}
	var err error
	w, err = tr.NewWriter(paths)
	if err != nil {
		fmt.Fprintln(os.Stderr, err)
		os.Exit(2)
	}
	for _, f := range strings.Split(*fam, ",") {
		switch f {
		case "acc":
			runtime.GOMAXPROCS(1)
			famAcc(*iters)
		case "pool":
			runtime.GOMAXPROCS(1)
			famPool(*iters, *hist)
		case "conc":
			famConc(*G, *iters, false, *procs, *seed)
		case "own":
			famConc(*G, *iters, true, *procs, *seed)
		case "alias":
			runtime.GOMAXPROCS(1)
			famAlias(*iters)
		case "def":
			famDef(*scripts)
		case "":
		default:
			fmt.Fprintln(os.Stderr, "unknown family", f)
			os.Exit(2)
		}
	}
	w.Close()
	fmt.Printf("{\"events\": %d, \"objects\": %d, \"reuse\": %d}\n", w.N, len(ptrIDs), reuses)
}
