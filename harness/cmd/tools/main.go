// Command tools records traces of prototest.ParseAnnotatedHex and of the protodump binary for
// validation against spec/TraceTools.tla (C20).
//
//	tools -fam hexdom,hexrnd,dump -protodump <path of the protodump binary built from /repo>
package main

import (
	"bytes"
	"encoding/json"
	"flag"
	"fmt"
	"math"
	"math/rand"
	"os"
	"os/exec"
	"path/filepath"
	"regexp"
	"sort"
	"strconv"
	"strings"

	"github.com/CrowdStrike/csproto/prototest"
	"google.golang.org/protobuf/encoding/protowire"

	"verif/harness/tr"
)

type entry struct {
	Ind  int    `json:"ind"`
	Fn   int    `json:"fn"`
	Wt   int    `json:"wt"`
	Kind string `json:"kind"`
	Val  []int  `json:"val"`
}

type ev struct {
	C       string  `json:"c"`
	Text    []int   `json:"text"`
	St      string  `json:"st"`
	Val     []int   `json:"val"`
	Buf     []int   `json:"buf"`
	Expand  [][]int `json:"expand"`
	Strings [][]int `json:"strings"`
	How     string  `json:"how"`
	Exit    int     `json:"exit"`
	Crashed int     `json:"crashed"`
	Entries []entry `json:"entries"`
	Note    string  `json:"note"`
	Raw     string  `json:"raw"`
}

func (e *ev) norm() {
	if e.Text == nil {
		e.Text = []int{}
	}
	if e.Val == nil {
		e.Val = []int{}
	}
	if e.Buf == nil {
		e.Buf = []int{}
	}
	if e.Expand == nil {
		e.Expand = [][]int{}
	}
	if e.Strings == nil {
		e.Strings = [][]int{}
	}
	if e.Entries == nil {
		e.Entries = []entry{}
	}
	for i := range e.Entries {
		if e.Entries[i].Val == nil {
			e.Entries[i].Val = []int{}
		}
	}
}

var (
	w   *tr.Writer
	rng *rand.Rand
)

func emit(e *ev) {
	e.norm()
	w.EmitAny(e)
	if w.N%400 == 0 {
		w.NextGroup() // events are independent of each other: spread them over the shards
	}
}

// ---------------------------------------------------------------------------------------------
// annotated hex

var wsChars = []string{" ", "\t", "\r", "\u00a0", "\v", "\f", "\u2003", "  ", "\u0085"}
var otherChars = []string{"g", "x", "-", "#", ",", "\"", "G", "0x", "é", "_"}

// render turns a symbol sequence into concrete text (rotating through the representatives of each class)
func render(sym []int, salt int) string {
	var sb strings.Builder
	for i, s := range sym {
		switch {
		case s < 16:
			c := "0123456789abcdef"[s]
			if (i+salt)%2 == 0 && s >= 10 {
				c = "0123456789ABCDEF"[s]
			}
			sb.WriteByte(c)
		case s == 16:
			sb.WriteString(wsChars[(i+salt)%len(wsChars)])
		case s == 17:
			sb.WriteByte('\n')
		case s == 18:
			sb.WriteByte(';')
		default:
			sb.WriteString(otherChars[(i+salt)%len(otherChars)])
		}
	}
	return sb.String()
}

// hexOne calls the real parser on the rendering of sym.  Note: "other" representatives such as "0x" contain a
// hex digit; the symbol sequence is adjusted so that it describes the rendered text exactly.
func hexOne(sym []int, salt int) {
	text := render(sym, salt)
	// re-derive the symbol classes from the rendered text (the trusted, trivial direction)
	var actual []int
	for _, r := range text {
		switch {
		case r >= '0' && r <= '9':
			actual = append(actual, int(r-'0'))
		case r >= 'a' && r <= 'f':
			actual = append(actual, int(r-'a')+10)
		case r >= 'A' && r <= 'F':
			actual = append(actual, int(r-'A')+10)
		case r == '\n':
			actual = append(actual, 17)
		case r == ';':
			actual = append(actual, 18)
		case r == ' ' || r == '\t' || r == '\r' || r == '\u00a0' || r == '\v' || r == '\f' || r == '\u2003' || r == '\u0085':
			actual = append(actual, 16)
		default:
			actual = append(actual, 19)
		}
	}
	e := &ev{C: "hex", Text: actual, Raw: text}
	if len(e.Raw) > 2000 {
		e.Raw = e.Raw[:2000] // the symbol classes in Text are complete; Raw is for the reader
	}
	var out []byte
	var err error
	func() {
		defer func() {
			if r := recover(); r != nil {
				e.St = "panic"
				e.Note = fmt.Sprint(r)
			}
		}()
		out, err = prototest.ParseAnnotatedHex(text)
	}()
	if e.St == "" {
		if err != nil {
			e.St = "err"
			e.Note = err.Error()
		} else {
			e.St = "ok"
			e.Val = tr.Bytes(out)
		}
	}
	emit(e)
}

// famHexDom: every text up to maxLen symbols over the six symbol classes of MCTools
func famHexDom(maxLen int) {
	symbols := []int{10, 5, 16, 17, 18, 19}
	var rec func(cur []int)
	n := 0
	rec = func(cur []int) {
		hexOne(cur, n)
		n++
		if len(cur) == maxLen {
			return
		}
		for _, s := range symbols {
			rec(append(cur, s))
		}
	}
	rec(nil)
}

// famHexRnd: random byte strings rendered with random spacing / comments / line splits, and random corruptions
func famHexRnd(iters int) {
	// large texts: single physical lines beyond 64 KiB (compact and spaced), a very long comment, many lines
	bigByte := func(sym []int, sep bool) []int {
		b := rng.Intn(256)
		sym = append(sym, b>>4, b&15)
		if sep {
			sym = append(sym, 16)
		}
		return sym
	}
	for k := 0; k < 4; k++ {
		var sym []int
		switch k {
		case 0: // > 64 KiB of compact hex on one line, then a second line
			for i := 0; i < 33000+rng.Intn(3000); i++ {
				sym = bigByte(sym, false)
			}
			sym = append(sym, 17)
			sym = bigByte(sym, true)
		case 1: // "XX " style, > 64 KiB on the second line
			sym = bigByte(sym, true)
			sym = append(sym, 17)
			for i := 0; i < 22500+rng.Intn(2000); i++ {
				sym = bigByte(sym, true)
			}
		case 2: // a comment longer than 64 KiB, bytes before and after it
			sym = bigByte(sym, true)
			sym = append(sym, 18)
			for i := 0; i < 66000+rng.Intn(3000); i++ {
				sym = append(sym, []int{10, 5, 16, 19, 3}[rng.Intn(5)])
			}
			sym = append(sym, 17)
			for i := 0; i < 20; i++ {
				sym = bigByte(sym, true)
			}
		default: // many short lines
			for i := 0; i < 300; i++ {
				for j := rng.Intn(4); j >= 0; j-- {
					sym = bigByte(sym, true)
				}
				sym = append(sym, 17)
			}
		}
		hexOne(sym, k)
	}
	for it := 0; it < iters; it++ {
		n := rng.Intn(40)
		var sym []int
		for i := 0; i < n; i++ {
			b := rng.Intn(256)
			for k := rng.Intn(3); k > 0; k-- {
				sym = append(sym, 16)
			}
			sym = append(sym, b>>4)
			if rng.Intn(40) == 0 { // split a byte across whitespace / a line break (corruption or 'may')
				sym = append(sym, []int{16, 17}[rng.Intn(2)])
			}
			sym = append(sym, b&15)
			switch rng.Intn(8) {
			case 0:
				sym = append(sym, 17)
			case 1:
				sym = append(sym, 16, 18)
				for k := rng.Intn(6); k > 0; k-- {
					sym = append(sym, []int{10, 5, 16, 18, 19, 19, 3}[rng.Intn(7)])
				}
				sym = append(sym, 17)
			}
		}
		if rng.Intn(6) == 0 && len(sym) > 0 { // corrupt: an illegal character or a dropped digit outside comments
			pos := rng.Intn(len(sym))
			if rng.Intn(2) == 0 {
				sym = append(sym[:pos], append([]int{19}, sym[pos:]...)...)
			} else {
				sym = append(sym[:pos], sym[pos+1:]...)
			}
		}
		hexOne(sym, it)
	}
}

// ---------------------------------------------------------------------------------------------
// protodump

var (
	reTag = regexp.MustCompile(`^( *)tag: (\d+), wire type: (.+)$`)
	wtNum = map[string]int{"varint": 0, "fixed64": 1, "length-delimited": 2, "fixed32": 5}
)

func parseDump(out string) ([]entry, string) {
	var es []entry
	lines := strings.Split(strings.TrimSuffix(out, "\n"), "\n")
	if len(lines) == 1 && lines[0] == "" {
		return nil, ""
	}
	for i := 0; i < len(lines); i++ {
		m := reTag.FindStringSubmatch(lines[i])
		if m == nil {
			return es, "unparsable line: " + lines[i]
		}
		ind := len(m[1]) / 2
		fn, _ := strconv.Atoi(m[2])
		wt, ok := wtNum[m[3]]
		if !ok {
			return es, "unknown wire type name " + m[3]
		}
		e := entry{Ind: ind, Fn: fn, Wt: wt}
		if i+1 >= len(lines) {
			return es, "missing value line"
		}
		i++
		v := strings.TrimPrefix(lines[i], m[1]+"  ")
		switch wt {
		case 0:
			n, err := strconv.ParseInt(strings.TrimPrefix(v, "varint: "), 10, 64)
			if err != nil || !strings.HasPrefix(v, "varint: ") {
				return es, "bad varint line: " + lines[i]
			}
			e.Kind, e.Val = "varint", tr.Word(uint64(n))
		case 5:
			n, err := strconv.ParseUint(strings.TrimPrefix(v, "fixed32: "), 10, 32)
			if err != nil || !strings.HasPrefix(v, "fixed32: ") {
				return es, "bad fixed32 line: " + lines[i]
			}
			e.Kind, e.Val = "fixed32", tr.LE32(uint32(n))
		case 1:
			n, err := strconv.ParseUint(strings.TrimPrefix(v, "fixed64: "), 10, 64)
			if err != nil || !strings.HasPrefix(v, "fixed64: ") {
				return es, "bad fixed64 line: " + lines[i]
			}
			e.Kind, e.Val = "fixed64", tr.LE64(n)
		case 2:
			ln, err := strconv.Atoi(strings.TrimPrefix(v, "length: "))
			if err != nil || !strings.HasPrefix(v, "length: ") || i+1 >= len(lines) {
				return es, "bad length line: " + lines[i]
			}
			i++
			v2 := strings.TrimPrefix(lines[i], m[1]+"  ")
			switch {
			case strings.HasPrefix(v2, "string: "):
				e.Kind = "string"
				// the string is printed verbatim: one that holds line feeds continues on the following lines
				sv := strings.TrimPrefix(v2, "string: ")
				for len(sv) < ln && i+1 < len(lines) {
					i++
					sv += "\n" + lines[i]
				}
				e.Val = tr.Bytes([]byte(sv))
			case strings.HasPrefix(v2, "[") && strings.HasSuffix(v2, "]"):
				e.Kind = "bytes"
				e.Val = []int{}
				inner := v2[1 : len(v2)-1]
				if inner != "" {
					for _, t := range strings.Split(inner, ",") {
						b, err := strconv.ParseUint(strings.TrimPrefix(t, "0x"), 16, 8)
						if err != nil {
							return es, "bad byte list: " + lines[i]
						}
						e.Val = append(e.Val, int(b))
					}
				}
			default:
				return es, "bad value line: " + lines[i]
			}
			if len(e.Val) != ln {
				return es, fmt.Sprintf("length line says %d, value has %d bytes", ln, len(e.Val))
			}
		}
		es = append(es, e)
	}
	return es, ""
}

func pathArg(paths [][]int) string {
	var ps []string
	for _, p := range paths {
		var ts []string
		for _, t := range p {
			ts = append(ts, strconv.Itoa(t))
		}
		ps = append(ps, strings.Join(ts, "."))
	}
	return strings.Join(ps, ",")
}

func dumpOne(bin, dir string, data []byte, expand, strs [][]int, how string, order ...int) {
	e := &ev{C: "dump", Buf: tr.Bytes(data), Expand: expand, Strings: strs, How: how}
	file := filepath.Join(dir, "msg.bin")
	if err := os.WriteFile(file, data, 0o644); err != nil {
		panic(err)
	}
	var args []string
	// several -expand flags and comma lists are equivalent; alternate
	// a flag may be repeated, in any order (deepest path first, shallowest first, shuffled), or carry a comma list, or both
	flagArgs := func(name string, paths [][]int) {
		if len(paths) == 0 {
			return
		}
		ps := append([][]int{}, paths...)
		ord := rng.Intn(4)
		if len(order) > 0 {
			ord = order[0]
		}
		switch ord {
		case 0: // one comma list
			args = append(args, name, pathArg(ps))
			return
		case 1: // deepest first
			sort.SliceStable(ps, func(i, j int) bool { return len(ps[i]) > len(ps[j]) })
		case 2: // shuffled
			rng.Shuffle(len(ps), func(i, j int) { ps[i], ps[j] = ps[j], ps[i] })
		default: // as collected (parents before children)
		}
		for i := 0; i < len(ps); i++ {
			if i+1 < len(ps) && rng.Intn(4) == 0 { // two paths in one occurrence
				args = append(args, name, pathArg(ps[i:i+2]))
				i++
				continue
			}
			args = append(args, name, pathArg(ps[i:i+1]))
		}
	}
	flagArgs("-expand", expand)
	flagArgs("-strings", strs)
	var cmd *exec.Cmd
	switch how {
	case "file":
		cmd = exec.Command(bin, append(args, "-file", file)...)
	case "stdin":
		cmd = exec.Command(bin, args...)
		f, err := os.Open(file)
		if err != nil {
			panic(err)
		}
		defer f.Close()
		cmd.Stdin = f
	default: // pipe
		cmd = exec.Command(bin, args...)
		cmd.Stdin = bytes.NewReader(data) // os/exec feeds a non-file reader through a pipe
	}
	var stdout, stderr bytes.Buffer
	cmd.Stdout, cmd.Stderr = &stdout, &stderr
	err := cmd.Run()
	if err != nil {
		if ee, ok := err.(*exec.ExitError); ok {
			e.Exit = ee.ExitCode()
		} else {
			e.Exit = -1
		}
	}
	if strings.Contains(stderr.String(), "panic:") || strings.Contains(stderr.String(), "goroutine ") || e.Exit == 2 || e.Exit < 0 {
		e.Crashed = 1
	}
	e.Note = strings.TrimSpace(stderr.String())
	if len(e.Note) > 200 {
		e.Note = e.Note[:200]
	}
	es, perr := parseDump(stdout.String())
	e.Entries = es
	if perr != "" {
		if e.Exit == 0 && (strings.HasPrefix(perr, "length line says") || strings.HasPrefix(perr, "bad byte list")) {
			// the tool's own length line and the value printed under it disagree, or an item of a byte list is not 0xNN: that is about
			// the tool, not about this parser; the
			// entries read so far plus a marker entry are judged (and cannot be explained)
			e.Entries = append(e.Entries, entry{Ind: 0, Fn: -1, Wt: 2, Kind: "bytes", Val: []int{}})
			e.Note = "output: " + perr
		} else if e.Exit == 0 {
			e.Note = "harness: " + perr
		}
		// partial output of a failed run is not judged
	}
	emit(e)
}

type node struct {
	fn   int
	wt   int
	v    uint64
	b    []byte
	kids []node // non-nil: a nested message
	str  bool
}

func genNodes(depth int) []node {
	var ns []node
	shapeOf := map[int]int{} // one shape per field number and level: a tag path then denotes one kind of field
	for i, n := 0, rng.Intn(5); i < n; i++ {
		nd := node{fn: []int{1, 2, 3, 4, 15, 16, 2047, 1<<29 - 1}[rng.Intn(8)]}
		sh, ok := shapeOf[nd.fn]
		if !ok {
			sh = rng.Intn(6)
			shapeOf[nd.fn] = sh
		}
		switch sh {
		case 0:
			nd.wt, nd.v = 0, []uint64{0, 1, 127, 128, math.MaxInt64, 1 << 63, math.MaxUint64, uint64(rng.Int63())}[rng.Intn(8)]
		case 1:
			nd.wt, nd.v = 5, uint64(rng.Uint32())
		case 2:
			nd.wt, nd.v = 1, rng.Uint64()
		case 3:
			nd.wt = 2
			nd.str = true
			// (text that means something to a formatter or a terminal: it is printed verbatim)
			nd.b = []byte([]string{"", "a", "hello world", "xyz", "100% done", "%d %s %v%", "50%", "a%0Ab%20c", "two\nlines", "tab\there", "caf\u00e9 \u2713",
				"%!s(MISSING)", "{{.}} $HOME `x`"}[rng.Intn(13)])
		case 4:
			nd.wt = 2
			nd.b = make([]byte, rng.Intn(6))
			rng.Read(nd.b)
		default:
			nd.wt = 2
			if depth < 3 {
				nd.kids = genNodes(depth + 1)
				if nd.kids == nil {
					nd.kids = []node{}
				}
			} else {
				nd.b = []byte{}
			}
		}
		ns = append(ns, nd)
	}
	return ns
}

func encodeNodes(ns []node) []byte {
	var b []byte
	for _, n := range ns {
		num := protowire.Number(n.fn)
		switch n.wt {
		case 0:
			b = protowire.AppendTag(b, num, protowire.VarintType)
			b = protowire.AppendVarint(b, n.v)
		case 5:
			b = protowire.AppendTag(b, num, protowire.Fixed32Type)
			b = protowire.AppendFixed32(b, uint32(n.v))
		case 1:
			b = protowire.AppendTag(b, num, protowire.Fixed64Type)
			b = protowire.AppendFixed64(b, n.v)
		default:
			b = protowire.AppendTag(b, num, protowire.BytesType)
			if n.kids != nil {
				b = protowire.AppendBytes(b, encodeNodes(n.kids))
			} else {
				b = protowire.AppendBytes(b, n.b)
			}
		}
	}
	return b
}

// collect the tag paths of nested messages and of string fields
func collectPaths(ns []node, prefix []int, msgs, strs *[][]int) {
	for _, n := range ns {
		p := append(append([]int{}, prefix...), n.fn)
		if n.kids != nil {
			*msgs = append(*msgs, p)
			collectPaths(n.kids, p, msgs, strs)
		} else if n.str {
			*strs = append(*strs, p)
		}
	}
}

func pick(paths [][]int, keep int) [][]int {
	var out [][]int
	for _, p := range paths {
		if rng.Intn(3) < keep {
			out = append(out, p)
		}
	}
	return out
}

func famDump(bin string, iters int) {
	dir, err := os.MkdirTemp("", "verif-dump-")
	if err != nil {
		panic(err)
	}
	defer os.RemoveAll(dir)
	hows := []string{"file", "stdin", "pipe"}
	// structured cases (always): deep chains with sibling length-delimited fields that differ in -strings / -expand membership,
	// and malformed payloads inside an expanded (or not expanded) nested message
	// sibling roots with equal tails: a path of two or three elements names ONE of them
	{
		inner := []node{{fn: 3, wt: 2, kids: []node{{fn: 1, wt: 0, v: 7}}}, {fn: 4, wt: 2, str: true, b: []byte("text")}}
		for ri, roots := range [][2]int{{1, 2}, {4, 9}, {15, 16}} {
			a, b := roots[0], roots[1]
			data := encodeNodes([]node{{fn: a, wt: 2, kids: inner}, {fn: b, wt: 2, kids: inner}})
			dumpOne(bin, dir, data, [][]int{{a}, {b}, {a, 3}}, [][]int{{a, 4}}, hows[ri%3])
			dumpOne(bin, dir, data, [][]int{{a}, {b}, {b, 3}}, [][]int{{b, 4}}, hows[(ri+1)%3])
			dumpOne(bin, dir, data, [][]int{{a}, {b}}, [][]int{{a, 4}}, hows[(ri+2)%3])
			deep := encodeNodes([]node{{fn: a, wt: 2, kids: []node{{fn: 5, wt: 2, kids: inner}}}, {fn: b, wt: 2, kids: []node{{fn: 5, wt: 2, kids: inner}}}})
			dumpOne(bin, dir, deep, [][]int{{a}, {b}, {a, 5}, {b, 5}, {a, 5, 3}}, [][]int{{b, 5, 4}}, hows[ri%3])
			dumpOne(bin, dir, deep, [][]int{{a}, {b}, {a, 5}, {b, 5}, {b, 5, 3}}, [][]int{{a, 5, 4}}, hows[(ri+1)%3])
		}
		// payloads printed as byte lists at the lengths where a formatter's buffer may wrap
		for _, n := range []int{50, 51, 52, 53, 102, 103, 104, 255, 256, 257, 1000} {
			p := make([]byte, n)
			for i := range p {
				p[i] = byte(0xa0 + i%0x5f)
			}
			dumpOne(bin, dir, encodeNodes([]node{{fn: 1, wt: 2, b: p}, {fn: 2, wt: 0, v: 1}}), nil, nil, hows[n%3])
		}
	}
	for depth := 1; depth <= 8; depth++ {
		leaf := []node{{fn: 1, wt: 2, str: true, b: []byte("ab")}, {fn: 2, wt: 2, str: true, b: []byte("cd")},
			{fn: 3, wt: 2, kids: []node{{fn: 1, wt: 0, v: 7}}}, {fn: 4, wt: 2, kids: []node{{fn: 2, wt: 2, str: true, b: []byte("x")}}}}
		ns := leaf
		var chain [][]int
		var prefix []int
		for d := 0; d < depth; d++ {
			ns = []node{{fn: 1, wt: 2, kids: ns}}
		}
		for d := 0; d < depth; d++ {
			prefix = append(prefix, 1)
			chain = append(chain, append([]int{}, prefix...))
		}
		at := func(fn ...int) []int { return append(append([]int{}, prefix...), fn...) }
		data := encodeNodes(ns)
		for pat := 0; pat < 8; pat++ {
			expand := append([][]int{}, chain...)
			var strs [][]int
			if pat&1 != 0 {
				strs = append(strs, at(1))
			}
			if pat&2 != 0 {
				strs = append(strs, at(2))
			}
			if pat&4 != 0 {
				expand = append(expand, at(3))
			} else {
				expand = append(expand, at(4))
				strs = append(strs, at(4, 2))
			}
			dumpOne(bin, dir, data, expand, strs, hows[(depth+pat)%3], pat%4)
		}
		// a nested message whose payload is not a message: a lone key byte, an over-long declared length, a group marker
		for bi, bad := range [][]byte{{0x08}, {0x0a, 0x05, 'a'}, {0x0b}, {0x08, 0x80}} {
			inner := []node{{fn: 3, wt: 2, b: bad}, {fn: 2, wt: 0, v: 1}}
			ns := inner
			for d := 1; d < depth && d < 4; d++ {
				ns = []node{{fn: 1, wt: 2, kids: ns}}
			}
			var chain2 [][]int
			var pre []int
			for d := 1; d < depth && d < 4; d++ {
				pre = append(pre, 1)
				chain2 = append(chain2, append([]int{}, pre...))
			}
			data := encodeNodes(ns)
			dumpOne(bin, dir, data, append(chain2, append(append([]int{}, pre...), 3)), nil, hows[(depth+bi)%3]) // expanded: malformed
			dumpOne(bin, dir, data, chain2, nil, hows[(depth+bi+1)%3])                                           // not expanded: just bytes
		}
	}
	for it := 0; it < iters; it++ {
		ns := genNodes(0)
		data := encodeNodes(ns)
		var msgs, strs [][]int
		collectPaths(ns, nil, &msgs, &strs)
		var expand, strp [][]int
		switch rng.Intn(5) {
		case 0: // nothing requested
		case 1: // everything
			expand, strp = msgs, strs
		case 2: // a subset, plus a non-matching and a prefix-only path
			expand, strp = pick(msgs, 2), pick(strs, 2)
			expand = append(expand, []int{9, 9})
		case 3: // expand only the deepest ones (their parents are not expanded: nothing to recurse into)
			for _, p := range msgs {
				if len(p) > 1 {
					expand = append(expand, p)
				}
			}
		default:
			expand, strp = pick(msgs, 1), pick(strs, 3)
		}
		how := hows[it%3]
		if len(data) == 0 && how != "file" {
			how = "file" // with no data on stdin the tool (by design) asks for input
		}
		dumpOne(bin, dir, data, expand, strp, how)
		// every path, each in its own flag occurrence, deepest first and shuffled (the order of repeated flags must not matter)
		deep := false
		for _, p := range msgs {
			deep = deep || len(p) > 1
		}
		if deep && it%2 == 0 {
			dumpOne(bin, dir, data, msgs, strs, how, 1)
			dumpOne(bin, dir, data, msgs, strs, hows[(it+1)%3], 2)
		}
		// malformed variants: truncation, a bad wire type, an over-long length
		if len(data) > 1 && it%3 == 0 {
			mb := append([]byte{}, data...)
			switch rng.Intn(3) {
			case 0:
				mb = mb[:1+rng.Intn(len(mb)-1)]
			case 1:
				mb = append(mb, 0x0b) // field 1, wire type 3 (group start)
			default:
				mb = append(mb, 0x0a, 0x7f) // declared length beyond the data
			}
			dumpOne(bin, dir, mb, expand, strp, hows[(it/3)%3])
		}
	}
}

func main() {
	fam := flag.String("fam", "hexdom", "families")
	seed := flag.Int64("seed", 1, "seed")
	out := flag.String("out", "trace", "output prefix")
	shards := flag.Int("shards", 1, "shards")
	iters := flag.Int("iters", 300, "iterations")
	maxlen := flag.Int("maxlen", 5, "hexdom max text length")
	bin := flag.String("protodump", "", "protodump binary")
	flag.Parse()
	rng = rand.New(rand.NewSource(*seed))
	var paths []string
	for i := 0; i < *shards; i++ {
		paths = append(paths, fmt.Sprintf("%s.%d.ndjson", *out, i))
	}
	var err error
	w, err = tr.NewWriter(paths)
	if err != nil {
		fmt.Fprintln(os.Stderr, err)
		os.Exit(2)
	}
	n := 0
	for _, f := range strings.Split(*fam, ",") {
		switch f {
		case "hexdom":
			famHexDom(*maxlen)
		case "hexrnd":
			famHexRnd(*iters)
		case "dump":
			famDump(*bin, *iters)
		case "":
		default:
			fmt.Fprintln(os.Stderr, "unknown family", f)
			os.Exit(2)
		}
		n++
		w.NextGroup()
	}
	w.Close()
	b, _ := json.Marshal(map[string]int{"events": w.N})
	fmt.Println(string(b))
}
