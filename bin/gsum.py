#!/usr/bin/env python3
"""gsum.py <dir> : summarise a TraceGen result (development aid)."""
import json, sys, collections
d = sys.argv[1]
r = json.load(open(d + '/result.json'))
ev = [json.loads(l) for l in open(d + '/trace.ndjson')]
print('n', r['n'], {k: len(v) for k, v in r.items() if k != 'n'})
for prop in [k for k in r if k != 'n']:
    c = collections.Counter(); ex = {}
    for i in r[prop]:
        e = ev[i - 1]
        k = (e['fl'], e['key'].split('/')[2] + '/' + e['key'].split('/')[3], e['st'], e['st2'], e['dynst'], e['note'][:60])
        c[k] += 1; ex.setdefault(k, (i, e['lbl']))
    print('==', prop, len(r[prop]))
    for k, v in c.most_common(int(sys.argv[2]) if len(sys.argv) > 2 else 25):
        print('  ', v, k, ex[k])
