"""Builds (and caches) the generated-code corpus: plug-ins -> generated packages -> compile -> driver binary."""
import hashlib
import json
import os
import time
import re
import shutil

import vflib as V

CACHE = os.environ.get("VERIF_CACHE") or os.path.join(V.VERIF, ".cache", "corpus")
SETS = "default=;permsg=filepermessage=true;unsafe=enableunsafedecode=true"
GOMOD = """module verif/corp

go 1.21

require (
	github.com/CrowdStrike/csproto v0.0.0
	verif/harness v0.0.0
)

replace github.com/CrowdStrike/csproto => %s

replace verif/harness => %s
"""


def _hash_tree(paths):
    h = hashlib.sha256()
    for root in paths:
        if os.path.isfile(root):
            files = [root]
        else:
            files = []
            for dp, dn, fn in os.walk(root):
                dn[:] = [d for d in dn if d not in (".git", "example", "docs")]
                for f in fn:
                    if f.endswith((".go", ".tmpl", ".mod", ".sum")) and not f.endswith("_test.go"):
                        files.append(os.path.join(dp, f))
        for f in sorted(files):
            h.update(f.encode())
            with open(f, "rb") as fh:
                h.update(fh.read())
    return h.hexdigest()[:20]


def build_race(scratch, d):
    """A second driver binary with the race detector (C09 concurrent clause)."""
    binp = scratch.path("bin-drv-race")
    p = V.run(["go", "build", "-race", "-tags", "verif", "-o", binp, "./cmd/drv"], cwd=d, timeout=1800, check=False)
    if p.returncode != 0:
        raise V.Inconclusive("race driver build failed:\n" + (p.stdout or "")[-3000:])
    return binp


def build(scratch, seed=None):
    """Returns (dir, corpus entries with 'compiled'/'compile_err', path of the driver binary)."""
    try:
        rseed = int(os.environ.get("VERIF_SEED") or "1") if seed is None else seed
    except ValueError:
        rseed = 1
    nrandom = 6
    key = "s%d-" % rseed + _hash_tree([os.path.join(V.REPO, "cmd", "protoc-gen-fastmarshal"), os.path.join(V.HARNESS, "corpus"),
                      os.path.join(V.HARNESS, "cmd", "corpusgen"), os.path.join(V.REPO, "go.mod")]) + "-" + hashlib.sha256(SETS.encode()).hexdigest()[:6]
    d = os.path.join(CACHE, key)
    os.makedirs(CACHE, exist_ok=True)
    # checks of several properties may run at the same time: generation and clean-up are serialised by a lock file
    import fcntl
    lock = open(os.path.join(CACHE, ".lock"), "w")
    fcntl.flock(lock, fcntl.LOCK_EX)
    try:
        _generate(scratch, d, rseed, nrandom)
    finally:
        fcntl.flock(lock, fcntl.LOCK_UN)
        lock.close()
    return _compile(scratch, d)


def _generate(scratch, d, rseed, nrandom):
    if not os.path.exists(os.path.join(d, "corpus.json")):
        tmp = d + ".tmp%d" % os.getpid()
        shutil.rmtree(tmp, ignore_errors=True)
        os.makedirs(tmp)
        plug = os.path.join(tmp, "plugins")
        os.makedirs(plug)
        V.run(["go", "build", "-o", os.path.join(plug, "protoc-gen-go"), "google.golang.org/protobuf/cmd/protoc-gen-go"], cwd=V.HARNESS, timeout=600)
        V.run(["go", "build", "-o", os.path.join(plug, "protoc-gen-gogo"), "github.com/gogo/protobuf/protoc-gen-gogo"], cwd=V.HARNESS, timeout=600)
        p = V.run(["go", "build", "-o", os.path.join(plug, "protoc-gen-fastmarshal")] + V.COVER_FLAGS + ["./cmd/protoc-gen-fastmarshal"], cwd=V.REPO, timeout=600, check=False)
        if p.returncode != 0:
            raise V.Inconclusive("protoc-gen-fastmarshal does not build:\n" + p.stdout[-2000:])
        gen = V.build_harness(scratch, "corpusgen")
        V.run([gen, "-out", tmp, "-plugins", plug, "-sets", SETS, "-rseed", str(rseed), "-nrandom", str(nrandom)], timeout=900)
        with open(os.path.join(tmp, "go.mod"), "w") as f:
            f.write(GOMOD % (V.REPO, V.HARNESS))
        shutil.copy(os.path.join(V.HARNESS, "go.sum"), os.path.join(tmp, "go.sum"))
        os.replace(tmp, d)
        # a few generations are kept (another check may be using one right now): the oldest beyond four, and nothing younger than an hour
        gens = sorted((g for g in os.listdir(CACHE) if os.path.isdir(os.path.join(CACHE, g)) and g != os.path.basename(d)),
                      key=lambda g: os.path.getmtime(os.path.join(CACHE, g)))
        for g in gens[:-3] if len(gens) > 3 else []:
            if time.time() - os.path.getmtime(os.path.join(CACHE, g)) > 3600:
                shutil.rmtree(os.path.join(CACHE, g), ignore_errors=True)
    else:
        os.utime(d, None)


def _compile(scratch, d):
    entries = json.load(open(os.path.join(d, "corpus.json")))
    # compile (against the current /repo: the go build cache makes this incremental)
    p = V.run(["go", "build", "./gen/..."], cwd=d, timeout=1800, check=False)
    failed = {}
    cur = None
    for line in (p.stdout or "").splitlines():
        m = re.match(r"# (verif/corp/\S+)", line)
        if m:
            cur = m.group(1)
            failed[cur] = []
        elif cur and line.strip():
            failed[cur].append(line.strip())
    # packages whose directory names differ only in case stop the whole build: set them aside (they do not compile as generated)
    # and build the rest
    collide = set()
    for m in re.finditer(r'case-insensitive import collision: "([^"]+)" and "([^"]+)"', p.stdout or ""):
        collide.update(m.groups())
    if collide:
        pkgs = [e["go_pkg"] for e in entries]
        lower = {c.lower() for c in collide}
        rest = sorted({g for g in pkgs if g.lower() not in lower})
        for g in pkgs:
            if g.lower() in lower:
                failed[g] = ["case-insensitive import collision: generated files were written to a directory whose name differs only in case"]
        p = V.run(["go", "build"] + rest, cwd=d, timeout=1800, check=False)
        cur = None
        for line in (p.stdout or "").splitlines():
            m = re.match(r"# (verif/corp/\S+)", line)
            if m:
                cur = m.group(1)
                failed[cur] = []
            elif cur and line.strip():
                failed[cur].append(line.strip())
    if p.returncode != 0 and not failed:
        raise V.Inconclusive("go build of the corpus failed:\n" + (p.stdout or "")[-2000:])
    for e in entries:
        e["files"] = e["files"] or []
        e["dup_names"] = e["dup_names"] or []
        # (file-per-message mode emits nothing for a file without messages: the package is then the runtime's own code alone)
        generated = not e["runtime_gen_err"] and not e["gen_err"] and (e["files"] or not e["messages"])
        e["compiled"] = bool(generated) and e["go_pkg"] not in failed and not e["dup_names"]
        e["compile_err"] = "; ".join(failed.get(e["go_pkg"], []))[:600]
    # the driver: registry of every message type of every compiled package
    imports, regs = [], []
    n = 0
    for e in entries:
        if not e["compiled"]:
            continue
        alias = "p%d" % n
        n += 1
        imports.append('\t%s "%s"' % (alias if e["messages"] else "_", e["go_pkg"]))   # (a file without messages: linked, not referenced)
        for m in (e["messages"] or []):
            exts = ""
            if e["base"] == "p2ext" and m["goname"] == "Base":
                kinds = ["int32", "int64", "uint64", "sint32", "sint64", "fixed32", "fixed64", "bool", "string", "bytes", "double", "float", "msg", "enum"]
                kinds += ["uint32", "sfixed32", "sfixed64"]
                more = {"int32@2": "E_Decl2_E2Int32", "string@2": "E_Decl2_E2String", "int64@f": "E_FInt64", "msg@f": "E_FMsg", "int32@n": "E_Plain_Deep_E3Int32",
                        "int32@d": "E_Decl3_E4Int32", "string@d": "E_Decl3_E4String", "string@m": "E_WithMap_Inner_E5String"}
                exts = ", Exts: map[string]interface{}{" + ", ".join(['"%s": %s.E_Decl_E%s' % (k, alias, k[0].upper() + k[1:]) for k in kinds] +
                                                                      ['"%s": %s.%s' % (k, alias, v) for k, v in sorted(more.items())]) + "}"
            regs.append('\t\t{Key: "%s/%s/%s/%s", Set: "%s", Flavour: "%s", Base: "%s", GoName: "%s", New: func() interface{} { return new(%s.%s) }%s},'
                        % (e["set"], e["flavour"], e["base"], m["goname"], e["set"], e["flavour"], e["base"], m["goname"], alias, m["goname"], exts))
    drv = os.path.join(d, "cmd", "drv")
    os.makedirs(drv, exist_ok=True)
    src = "// Code generated by bin/corpus.py. DO NOT EDIT.\npackage main\n\nimport (\n\t\"verif/harness/msgdrv\"\n" + "\n".join(imports) + \
          "\n)\n\nfunc main() {\n\tmsgdrv.Main([]msgdrv.TypeInfo{\n" + "\n".join(regs) + "\n\t})\n}\n"
    path = os.path.join(drv, "main.go")
    if not os.path.exists(path) or open(path).read() != src:
        with open(path, "w") as f:
            f.write(src)
    binp = scratch.path("bin-drv")
    p = V.run(["go", "build", "-tags", "verif", "-o", binp] + V.COVER_FLAGS + ["./cmd/drv"], cwd=d, timeout=1800, check=False)
    if p.returncode != 0:
        raise V.Inconclusive("driver build failed:\n" + (p.stdout or "")[-3000:])
    return d, entries, binp
