"""C16: protoc-gen-fastmarshal is total, deterministic and emits compiling code, on the schema corpus.

TLC model checking (MCGenerator) explores the naming function at design level (and documents, as an
expected violation, that the documented per-message naming is not injective).  Conformance: every
(schema file x flavour x option set) of the corpus is run through the plug-in rebuilt from /repo -
twice, in different working directories and environments - parsed with go/parser and compiled with
the runtime's own generated types; TLC judges each recorded run (TraceGenerator / Generator!GenOK).
"""
import json
import os
import time

import corpus
import vflib as V
from chk_lazy import tlc_expect_violation

RULE = ("one case = one plug-in run on one corpus file (feature-matrix and atomic one-feature schemas, proto2 and proto3) for one flavour "
        "(gogo: apiversion v1, google-v2: apiversion v2) and one option set (default, filepermessage=true, enableunsafedecode=true; specialname "
        "where the schema needs it): recorded = errors of two runs, file names, per-file hashes of both runs, the same for a third run in which the file is the second of a two-file request, go/parser result, go build result; "
        "distinct = distinct (file, flavour, option set); non-trivial = the file has at least one message")


def check(prop, tier, seed, replay_path=None, selftest=False, keep=False):
    t0 = time.time()
    scratch = V.Scratch(keep)
    verdicts = V.Verdicts(prop)
    try:
        mcs = [V.tlc_mc(scratch, "MCGenerator", "MCGenerator.cfg")]
        expected = [tlc_expect_violation(scratch, "MCGenerator", "MCGenerator_injective.cfg", "InjectiveNaming")]
        # the per-file loop of the plug-in process: as found every output is rendered with its own file's helpers; caching the parsed
        # templates (bound to the first file's helpers) is the expected violation
        mcs.append(V.tlc_mc(scratch, "GenLoop", "GenLoop.cfg"))
        mcs.append(V.tlc_mc(scratch, "GenLoop", "GenLoop_live.cfg"))     # the loop terminates and renders every requested file
        expected.append(tlc_expect_violation(scratch, "GenLoop", "GenLoop_cacheonce.cfg", "PerFile"))
        cdir, entries, drv = corpus.build(scratch)
        # spec -> code: the parameter domain TLC printed, one plug-in run per (key, value)
        mclog = open(os.path.join(scratch.dir, "mc-MCGenerator", "tlc.log")).read()
        dom = scratch.path("params.txt")
        with open(dom, "w") as f:
            f.write("\n".join(l for l in mclog.splitlines() if '"PARAM"' in l) + "\n")
        gen = V.build_harness(scratch, "corpusgen")
        pout = scratch.sub("paramprobe")
        V.run([gen, "-paramprobe", dom, "-plugins", os.path.join(cdir, "plugins"), "-out", pout], timeout=900)
        params = [json.loads(l) for l in open(os.path.join(pout, "params.ndjson"))]
        if len(params) < 100:
            raise V.Inconclusive("TLC emitted only %d parameter pairs" % len(params))
        tf = scratch.path("c16.ndjson")
        events = []
        with open(tf, "w") as f:
            for pe in params:
                ev = dict(pe, rterr="", base="probe", flavour="", set="", syntax="proto3", features=[], params=pe["form"], req={"prefix": "", "permsg": False, "msgs": []},
                          o={"err1": pe["err"], "err2": "", "names": [], "sha1": [], "sha2": [], "multi": 0, "err3": "", "sha3": [], "parsed": [], "compiled": 0}, compile_err="")
                events.append(ev)
                f.write(json.dumps(ev) + "\n")
            for e in entries:
                files = e["files"] or []
                prefix = "%s/%s" % (e["dir"], e["base"])
                ev = {
                    "c": "gen", "k": "", "v": "", "ok": 0,
                    "base": e["base"], "flavour": e["flavour"], "set": e["set"], "syntax": e["syntax"], "features": e["features"], "params": e["params"],
                    "rterr": e["runtime_gen_err"],
                    "req": {"prefix": prefix, "permsg": "filepermessage=true" in e["params"],
                            "msgs": [{"short": m["short"], "lower": m["short"].lower()} for m in (e["messages"] or [])]},
                    "o": {"err1": e["gen_err"][:300], "err2": e["gen_err2"][:300], "names": [x["name"] for x in files],
                          "sha1": [x["sha1"] for x in files], "sha2": [x["sha2"] for x in files],
                          "multi": 1 if e.get("multi") else 0, "err3": (e.get("gen_err3") or "")[:300], "sha3": [x.get("sha3", "") for x in files],
                          "parsed": [1 if x["parse_ok"] else 0 for x in files], "compiled": 1 if e["compiled"] else 0},
                    "compile_err": e["compile_err"][:300],
                }
                events.append(ev)
                f.write(json.dumps(ev) + "\n")
        if replay_path:
            pass
        res = V.tlc_trace(scratch, "TraceGenerator", "TraceGenerator.cfg", [tf], label="tv-C16")
        r = res[0][1]
        if r["n"] != len(events):
            raise V.Inconclusive("TLC consumed %d of %d events" % (r["n"], len(events)))
        if r["desync"]:
            raise V.Inconclusive("the runtime's own generator failed on a corpus file (corpus defect): %s" % json.dumps(events[r["desync"][0] - 1])[:500])
        for n, i in enumerate(r["bad"]):
            e = events[i - 1]
            o = e["o"]
            if e["c"] == "param":
                sig = {"kind": "parameter-accepted" if e["ok"] else "parameter-refused", "base": "probe", "flavour": "", "set": "", "syntax": "", "features": "", "cause": e["k"]}
                verdicts.fail(sig, {"property": prop, "event": {k: e[k] for k in ("c", "k", "v", "form", "ok", "err")}}, "%d-param-%s" % (n, e["k"]))
                continue
            if o["err1"] or o["err2"]:
                kind = "generator-error"
            elif len(set(o["names"])) != len(o["names"]):
                kind = "duplicate-output-name"
            elif o["sha1"] != o["sha2"]:
                kind = "nondeterministic"
            elif o["multi"] and (o["err3"] or o["sha3"] != o["sha1"]):
                kind = "depends-on-co-generated-files"
            elif not all(o["parsed"]):
                kind = "unparsable-go"
            elif not o["compiled"]:
                kind = "does-not-compile"
            else:
                kind = "unexpected-names"
            shorts = [m["short"] for m in e["req"]["msgs"]]
            lowers = [m["lower"] for m in e["req"]["msgs"]]
            cause = ""
            if kind == "duplicate-output-name":
                cause = "same-short-name" if len(set(shorts)) != len(shorts) else ("case-only" if len(set(lowers)) != len(lowers) else "other")
            sig = {"kind": kind, "cause": cause, "base": e["base"], "flavour": e["flavour"], "set": e["set"], "syntax": e["syntax"],
                   "features": ",".join(f for f in e["features"] if f not in ("proto2", "proto3", "atomic"))}
            verdicts.fail(sig, {"property": prop, "event": e}, "%d-%s-%s-%s" % (n, e["base"], e["flavour"], e["set"]))
        rc = verdicts.finish()
        cov = {
            "states": sum(m["states"] for m in mcs), "transitions": sum(m["transitions"] for m in mcs),
            "traces_validated_against_impl": len(events),
            "evaluations": len(events), "distinct_nontrivial": len({(e["base"], e["flavour"], e["set"]) for e in events if e["req"]["msgs"]}),
            "parameter_domain_runs": len(params),
            "rule": RULE, "exhaustive": True,
            "samples": [{k: events[i][k] for k in ("base", "flavour", "set", "params", "req", "o")} for i in (len(params), len(params) + (len(events) - len(params)) // 2)] + [{k: events[0][k] for k in ("c", "k", "v", "form", "ok")}],
            "expected_violation_configs": expected,
            "explanation": "exhaustive over the corpus product; 'valid Go that compiles' is read from go/parser and go build (sensors), the specification "
                           "contributes the enumeration and judges names / determinism / totality",
            "known_findings_fired": sorted(verdicts.known_hits),
        }
        V.write_evidence(prop, tier, seed, "model_checking", cov, [
            "go/parser and `go build` decide whether text is compiling Go",
            "the corpus is the claimed 'supported feature set': proto2/proto3, all 15 scalar kinds x cardinalities, maps with every legal key kind, oneofs, nested/recursive "
            "types, well-known-type imports, extensions of every kind declared in a message scope, required fields, name collisions; x {gogo, google-v2} x 3 option sets",
        ], time.time() - t0, len(verdicts.violations))
        return rc
    finally:
        scratch.cleanup()
