"""C20: prototest.ParseAnnotatedHex and cmd/protodump.

TLC model checking (MCTools): the declarative definition of the annotated-hex language and a
streaming automaton agree on every text up to a bounded length.  Conformance: the real parser is run
on every text of the same bounded domain (rendered with rotating representatives of each symbol class)
and on random renderings of random byte strings; the protodump binary built from /repo is run on
random messages x path sets x {-file, redirected stdin, pipe} and its output is parsed back; TLC judges
every recorded call / run (TraceTools).
"""
import glob
import json
import os
import time

import vflib as V

TIERS = {
    "quick": dict(maxlen=5, iters=400, dump=150, shards=8, mc="MCTools_quick.cfg"),
    "thorough": dict(maxlen=7, iters=20000, dump=3000, shards=16, mc="MCTools_thorough.cfg"),
}

RULE = ("hex: one case = one call of ParseAnnotatedHex on a text (every text up to maxlen symbols over {hex digit a, hex digit 5, white space, line feed, ';', "
        "other} with rotating concrete representatives, plus random byte strings rendered with random spacing / comments / line splits / corruptions); dump: one "
        "case = one protodump run on a random message (<= 4 fields per level, depth <= 3, all wire types, extreme values) with a random set of expand/strings "
        "paths through -file, redirected stdin or a pipe, plus truncated / bad-wire-type / over-long-length variants; distinct = distinct (text) / (bytes, paths, "
        "input mode); non-trivial = the text has a hex digit outside comments / the message has at least one field")


def check(prop, tier, seed, replay_path=None, selftest=False, keep=False):
    t0 = time.time()
    scratch = V.Scratch(keep)
    verdicts = V.Verdicts(prop)
    try:
        cfg = TIERS[tier]
        mcs = [V.tlc_mc(scratch, "MCTools", cfg["mc"])]
        binp = V.build_harness(scratch, "tools")
        pd = scratch.path("protodump")
        p = V.run(["go", "build", "-o", pd] + V.COVER_FLAGS + ["./cmd/protodump"], cwd=V.REPO, timeout=600, check=False)
        if p.returncode != 0:
            raise V.Inconclusive("protodump does not build:\n" + p.stdout[-2000:])
        outp = scratch.path("tr-C20")
        if replay_path:
            rp = json.load(open(replay_path))
            args = rp["args"]
            seed = rp["seed"]
        else:
            args = ["-fam", "hexdom,hexrnd,dump", "-maxlen", str(cfg["maxlen"]), "-iters", str(cfg["iters"])]
        # the dump family has its own iteration count: run it separately
        runs = [[a for a in args]]
        if not replay_path:
            runs = [["-fam", "hexdom,hexrnd", "-maxlen", str(cfg["maxlen"]), "-iters", str(cfg["iters"])], ["-fam", "dump", "-iters", str(cfg["dump"])]]
        files = []
        nev = 0
        for i, a in enumerate(runs):
            o = "%s-%d" % (outp, i)
            pr = V.run([binp] + a + ["-seed", str(seed), "-shards", str(cfg["shards"]), "-out", o, "-protodump", pd], timeout=3600)
            nev += json.loads(pr.stdout.strip().splitlines()[-1])["events"]
            files += sorted(glob.glob(o + ".*.ndjson"))
        results = V.tlc_trace(scratch, "TraceTools", "TraceTools.cfg", files, label="tv-C20")
        seen, nont, samples = set(), set(), []
        nfail = 0
        for tf, r in results:
            events = V.load_events(tf)
            if r["n"] != len(events):
                raise V.Inconclusive("TLC consumed %d of %d events" % (r["n"], len(events)))
            if r["desync"]:
                raise V.Inconclusive("malformed events: %s" % json.dumps(events[r["desync"][0] - 1])[:400])
            for e in events:
                if e["c"] == "dump" and e["note"].startswith("harness:"):
                    raise V.Inconclusive("the harness could not parse protodump's output of a successful run: %s / %s" % (e["note"], json.dumps(e["buf"])))
                h = hash((e["c"], tuple(e["text"]), tuple(e["buf"]), json.dumps(e["expand"]), json.dumps(e["strings"]), e["how"]))
                seen.add(h)
                if (e["c"] == "hex" and any(s < 16 for s in e["text"])) or (e["c"] == "dump" and e["buf"]):
                    nont.add(h)
            for k in (1, len(events) // 2):
                if len(samples) < 4 and len(events) > k:
                    e = events[k]
                    samples.append({f: e[f] for f in (("c", "raw", "text", "st", "val") if e["c"] == "hex" else ("c", "buf", "expand", "strings", "how", "exit", "entries"))})
            for i in r["bad"]:
                e = events[i - 1]
                sig = {"c": e["c"], "st": e["st"], "how": e["how"], "exit": e["exit"], "crashed": e["crashed"], "kind": "unexplained"}
                verdicts.fail(sig, {"property": prop, "observed": e, "seed": seed,
                                    "args": (["-fam", "dump", "-iters", str(cfg["dump"])] if e["c"] == "dump" else ["-fam", "hexdom,hexrnd", "-maxlen", str(cfg["maxlen"]), "-iters", str(cfg["iters"])])},
                              "%d-%d" % (nfail, i))
                nfail += 1
        rc = verdicts.finish()
        if replay_path:
            print("replay: %d events re-recorded, %s" % (nev, "violation reproduced" if rc else "no violation"))
            return rc
        cov = {"states": mcs[0]["states"], "transitions": mcs[0]["transitions"], "traces_validated_against_impl": len(results),
               "evaluations": nev, "distinct_nontrivial": len(nont), "distinct_cases": len(seen), "rule": RULE, "samples": samples, "exhaustive": False,
               "explanation": "TLC model checking MCTools/%s: %d states (HexRef = streaming automaton on every text of the bounded domain). Every recorded "
                              "ParseAnnotatedHex call and protodump run judged by TraceTools." % (cfg["mc"], mcs[0]["states"]),
               "known_findings_fired": sorted(verdicts.known_hits)}
        V.write_evidence(prop, tier, seed, "model_checking", cov, [
            "the harness classifies rendered characters into the six symbol classes and parses protodump's text output back into (indent, tag, wire type, value) tuples (decimal -> 64-bit word)",
            "protodump is run as a subprocess built from /repo's working tree; a non-zero exit is an error report, a Go panic trace on stderr is a crash",
        ], time.time() - t0, len(verdicts.violations))
        return rc
    finally:
        scratch.cleanup()
