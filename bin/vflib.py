"""Shared plumbing for /verif/bin/check: environment, harness builds, TLC runs, verdicts, evidence.

Exit codes of a check: 0 = everything explored is explained by the specification (possibly with
KNOWN-FINDING lines), 1 = at least one VIOLATION line, 2 = inconclusive (machinery failure: TLC
error, time-out, harness build failure, specification and reference disagree, desynchronised trace).
"""
import concurrent.futures
import json
import os
import re
import shutil
import signal
import subprocess
import sys
import tempfile
import time

VERIF = os.path.dirname(os.path.dirname(os.path.abspath(__file__)))
REPO = os.environ.get("VERIF_REPO", "/repo")
SPEC = os.path.join(VERIF, "spec")
HARNESS = os.path.join(VERIF, "harness")
ALT = None
if os.path.realpath(REPO) != "/repo":
    # VERIF_REPO=<another checkout> (a `vp run --with-repo` snapshot, a scratch worktree with a seeded change): the harness module
    # names /repo in its replace directive, so build from a private copy of it that names the other checkout, and keep that
    # checkout's generated corpus apart from the cache of /repo's
    import atexit
    ALT = tempfile.mkdtemp(prefix="verif-alt-")
    atexit.register(shutil.rmtree, ALT, True)
    shutil.copytree(HARNESS, os.path.join(ALT, "harness"))
    HARNESS = os.path.join(ALT, "harness")
    with open(os.path.join(HARNESS, "go.mod")) as _f:
        _gm = _f.read()
    with open(os.path.join(HARNESS, "go.mod"), "w") as _f:
        _f.write(_gm.replace("=> /repo", "=> " + os.path.realpath(REPO)))
    os.environ.setdefault("VERIF_CACHE", os.path.join(ALT, "cache"))
EVIDENCE = os.environ.get("VERIF_EVIDENCE") or os.path.join(VERIF, "evidence")
REPLAYS = os.environ.get("VERIF_REPLAYS") or os.path.join(VERIF, "replays")
NCPU = os.cpu_count() or 4
# VERIF_COVER=<dir>: build every harness / tool binary with -cover over the csproto packages and collect the counters there
# (bin/cover reports which csproto functions the conformance runs actually execute)
COVER = os.environ.get("VERIF_COVER")
# (the main package has to be among the instrumented ones or the binary never writes its counters)
COVER_FLAGS = ["-cover", "-coverpkg=github.com/CrowdStrike/csproto/...,verif/..."] if COVER else []


class Inconclusive(Exception):
    pass


def env():
    e = dict(os.environ)
    e.update({
        # -trimpath: build-cache keys then do not depend on the directory of /repo or of a scratch worktree (VERIF_REPO), so the few
        # hundred corpus packages that import csproto are compiled once per CONTENT of csproto, not once per checkout location
        "GOFLAGS": "-mod=mod -trimpath", "GOPROXY": "off", "GOSUMDB": "off", "GOTOOLCHAIN": "local",
        "JAVA_TOOL_OPTIONS": "-Xss512m",
    })
    if COVER:
        os.makedirs(COVER, exist_ok=True)
        e["GOCOVERDIR"] = COVER
    return e


def disk_guard(min_free_gb=8):
    """The Go build cache only trims entries older than five days; many checks of many differing trees can fill the disk within
    hours, after which every check is inconclusive.  When the cache's file system is nearly full the cache is emptied (it is a cache)."""
    try:
        gocache = subprocess.run(["go", "env", "GOCACHE"], env=env(), stdout=subprocess.PIPE, text=True).stdout.strip() or os.path.expanduser("~/.cache/go-build")
        st = os.statvfs(gocache if os.path.isdir(gocache) else "/")
        if st.f_bavail * st.f_frsize < min_free_gb << 30:
            log("disk_guard: less than %d GB free, emptying the Go build cache" % min_free_gb)
            subprocess.run(["go", "clean", "-cache"], env=env(), stdout=subprocess.DEVNULL, stderr=subprocess.DEVNULL)
    except Exception as ex:  # never let housekeeping decide a check
        log("disk_guard: %s" % ex)


def log(*a):
    print(*a, file=sys.stderr, flush=True)


class Scratch:
    """A scratch directory outside /repo and /verif, removed on exit unless keep is set."""

    def __init__(self, keep=False):
        self.keep = keep or bool(os.environ.get("VERIF_KEEP"))
        self.dir = tempfile.mkdtemp(prefix="verif-")

    def path(self, *p):
        return os.path.join(self.dir, *p)

    def sub(self, name):
        d = self.path(name)
        os.makedirs(d, exist_ok=True)
        return d

    def cleanup(self):
        if self.keep:
            log("scratch kept at", self.dir)
        else:
            shutil.rmtree(self.dir, ignore_errors=True)


def run(cmd, cwd=None, timeout=None, check=True, capture=True, extra_env=None):
    e = env()
    if extra_env:
        e.update(extra_env)
    # (own session: on a time-out the whole process group goes - tlapm's back-end provers and TLC's workers used to survive their parent)
    proc = subprocess.Popen(cmd, cwd=cwd, env=e, stdout=subprocess.PIPE if capture else None,
                            stderr=subprocess.STDOUT if capture else None, text=True, start_new_session=True)
    try:
        out, _ = proc.communicate(timeout=timeout)
    except subprocess.TimeoutExpired:
        try:
            os.killpg(proc.pid, signal.SIGKILL)
        except OSError:
            pass
        proc.wait()
        raise Inconclusive("timeout: %s" % " ".join(cmd[:4]))
    except BaseException:
        try:
            os.killpg(proc.pid, signal.SIGKILL)
        except OSError:
            pass
        raise
    p = subprocess.CompletedProcess(cmd, proc.returncode, out, None)
    if check and p.returncode != 0:
        raise Inconclusive("command failed (%d): %s\n%s" % (p.returncode, " ".join(cmd), (p.stdout or "")[-3000:]))
    return p


_built = {}
import threading  # noqa: E402
_retry_lock = threading.Lock()


def build_harness(scratch, name, tags="verif", race=False):
    """go build ./cmd/<name> of the harness module against /repo's working tree."""
    key = (name, tags, race)
    if key in _built:
        return _built[key]
    gosum = os.path.join(HARNESS, "go.sum")
    # the harness's go.sum must cover /repo's dependency graph
    if not os.path.exists(gosum):
        shutil.copy(os.path.join(REPO, "go.sum"), gosum)
    out = scratch.path("bin-" + name + ("-race" if race else ""))
    cmd = ["go", "build", "-tags", tags, "-o", out] + COVER_FLAGS
    if race:
        cmd.append("-race")
    cmd.append("./cmd/" + name)
    p = run(cmd, cwd=HARNESS, timeout=900, check=False)
    if p.returncode != 0:
        raise Inconclusive("harness build failed for %s:\n%s" % (name, p.stdout[-4000:]))
    _built[key] = out
    return out


def stage_specs(dirpath, cfg=None):
    for f in os.listdir(SPEC):
        if f.endswith(".tla"):
            shutil.copy(os.path.join(SPEC, f), dirpath)
    if cfg:
        shutil.copy(os.path.join(SPEC, "cfg", cfg), dirpath)


_RE_STATES = re.compile(r"(\d+) states generated, (\d+) distinct states found")


def tlc_mc(scratch, module, cfg, workers=None, timeout=1800, label=None):
    """Model-check module with cfg.  Returns dict(states, transitions, depth, seconds).
    Any invariant violation or TLC error is a defect of the model, not of csproto: Inconclusive."""
    d = scratch.sub("mc-" + (label or cfg.replace(".cfg", "")))
    stage_specs(d, cfg)
    t0 = time.time()
    p = run(["tlc", "-workers", str(workers or NCPU), "-metadir", os.path.join(d, "md"), "-config", cfg, module + ".tla"],
            cwd=d, timeout=timeout, check=False, extra_env={"JAVA_TOOL_OPTIONS": "-Xss512m -Djava.io.tmpdir=%s" % d})
    out = p.stdout or ""
    with open(os.path.join(d, "tlc.log"), "w") as f:
        f.write(out)
    m = None
    for m in _RE_STATES.finditer(out):
        pass
    if p.returncode != 0 or "Model checking completed. No error has been found." not in out or m is None:
        errs = [l for l in out.splitlines() if l.startswith("Error") or "is violated" in l][:6]
        raise Inconclusive("TLC model checking of %s/%s did not succeed: %s" % (module, cfg, "; ".join(errs) or out[-1500:]))
    depth = re.search(r"depth of the complete state graph search is (\d+)", out)
    return {"module": module, "cfg": cfg, "transitions": int(m.group(1)), "states": int(m.group(2)),
            "depth": int(depth.group(1)) if depth else 0, "seconds": round(time.time() - t0, 1)}


def tlaps_prove(scratch, module, deps, theorem):
    """Run the TLA+ proof system on spec/proofs/<module>.tla; returns the number of obligations proved."""
    d = scratch.sub("tlaps-" + module)
    for f in deps:
        shutil.copy(os.path.join(SPEC, f), d)
    shutil.copy(os.path.join(SPEC, "proofs", module + ".tla"), d)
    p = run(["tlapm", "--threads", str(NCPU), module + ".tla"], cwd=d, timeout=900, check=False)
    m = re.search(r"All (\d+) obligations? proved", p.stdout or "")
    if not m:
        raise Inconclusive("tlapm did not prove %s: %s" % (module, (p.stdout or "")[-800:]))
    return {"module": "proofs/%s.tla" % module, "obligations_proved": int(m.group(1)),
            "theorem": theorem}


TRACE_XMX = os.environ.get("VERIF_TRACE_XMX") or "6g"


def trace_workers():
    """How many trace validations to run at a time: half the cores, but no more than fit into the memory that is available now."""
    try:
        gb = float(TRACE_XMX.rstrip("gGmM")) / (1024.0 if TRACE_XMX[-1] in "mM" else 1.0)
        avail = 0.0
        for line in open("/proc/meminfo"):
            if line.startswith("MemAvailable:"):
                avail = int(line.split()[1]) / (1024.0 * 1024.0)
        return max(1, min(NCPU // 2, int(avail * 0.8 // max(gb, 0.5))))
    except Exception:
        return max(1, NCPU // 2)


def tlc_trace_one(d, module, cfg, timeout):
    """One TLC process validating d/trace.ndjson.  The JVM's default maximum heap is a quarter of the machine's memory and it grows lazily
    up to it; eight validations in parallel, of several checks at a time, were killed by the kernel's OOM killer.  A trace needs far less:
    the heap is capped (VERIF_TRACE_XMX, default 4g), and a process that died without a TLC error message is run once more, alone."""
    t0 = time.time()
    # (java.io.tmpdir: TLC leaves a tlc-* entry per run in the temporary directory; inside the scratch directory it goes away with it)
    jopts = {"JAVA_TOOL_OPTIONS": "-Xss512m -Xmx%s -Djava.io.tmpdir=%s" % (TRACE_XMX, d)}
    cmd = ["tlc", "-workers", "1", "-metadir", os.path.join(d, "md"), "-config", cfg, module + ".tla"]
    p = run(cmd, cwd=d, timeout=timeout, check=False, extra_env=jopts)
    out = p.stdout or ""
    res = os.path.join(d, "result.json")
    died = p.returncode != 0 and not os.path.exists(res) and not any(l.startswith("Error") for l in out.splitlines())
    heap = "OutOfMemoryError" in out or "Java heap space" in out or "GC overhead" in out
    if died or (heap and not os.path.exists(res)):
        with _retry_lock:
            shutil.rmtree(os.path.join(d, "md"), ignore_errors=True)
            p = run(cmd, cwd=d, timeout=timeout, check=False, extra_env={"JAVA_TOOL_OPTIONS": "-Xss512m -Xmx14g -Djava.io.tmpdir=%s" % d})
            out = p.stdout or ""
    with open(os.path.join(d, "tlc.log"), "w") as f:
        f.write(out)
    if p.returncode != 0 or "No error has been found" not in out or not os.path.exists(res):
        errs = [l for l in out.splitlines() if l.startswith("Error")][:4]
        cause = [l for l in out.splitlines() if "but it produced the following error" in l or "OutOfMemory" in l or "heap space" in l or "Cannot convert" in l][:3]
        raise Inconclusive("TLC trace validation failed in %s: %s %s" % (d, "; ".join(e[:300] for e in errs) or out[-1200:], " / ".join(cause)))
    with open(res) as f:
        r = json.load(f)
    r["seconds"] = round(time.time() - t0, 1)
    return r


def tlc_trace(scratch, module, cfg, trace_files, timeout=1800, label="tv"):
    """Validate each trace file (one TLC process per file, in parallel).  Returns a list of
    (trace_file, result) where result has n, bad, drift, desync (1-based event indices)."""
    jobs = []
    for i, tf in enumerate(trace_files):
        if os.path.getsize(tf) == 0:
            continue
        d = scratch.sub("%s-%d" % (label, i))
        stage_specs(d, cfg)
        os.replace(tf, os.path.join(d, "trace.ndjson"))
        jobs.append(d)
    results = []
    with concurrent.futures.ThreadPoolExecutor(max_workers=trace_workers()) as ex:
        futs = {ex.submit(tlc_trace_one, d, module, cfg, timeout): d for d in jobs}
        for fut in concurrent.futures.as_completed(futs):
            d = futs[fut]
            results.append((os.path.join(d, "trace.ndjson"), fut.result()))
    results.sort()
    return results


def load_events(path):
    with open(path) as f:
        return [json.loads(l) for l in f]


def load_known():
    p = os.path.join(VERIF, "known_findings.json")
    if not os.path.exists(p):
        return []
    with open(p) as f:
        return json.load(f).get("findings", [])


def match_known(prop, sig, known):
    """sig: dict of signature fields of a failing case.  A known finding matches when it is an open
    (not fixed) finding of this property and every field of its 'match' equals the signature's."""
    for k in known:
        if k.get("property") != prop or k.get("status") == "fixed":
            continue
        alts = k.get("match_any") or [k.get("match", {})]
        if any(m and all(sig.get(f) == v for f, v in m.items()) for m in alts):
            return k
    return None


def write_replay(prop, name, payload):
    os.makedirs(REPLAYS, exist_ok=True)
    path = os.path.join(REPLAYS, "%s-%s.json" % (prop, name))
    with open(path, "w") as f:
        json.dump(payload, f)
    return path


def write_evidence(prop, tier, seed, level, coverage, assumptions, wall, violations, extra=None):
    os.makedirs(EVIDENCE, exist_ok=True)
    ev = {"property_id": prop, "tier": tier, "seed": seed, "level": level, "coverage": coverage,
          "assumptions": assumptions, "wall_s": round(wall, 1), "violations": violations}
    if extra:
        ev.update(extra)
    with open(os.path.join(EVIDENCE, prop + ".json"), "w") as f:
        json.dump(ev, f, indent=1)
        f.write("\n")


class Verdicts:
    """Collects failing cases, separates known findings from violations, prints the interface lines."""

    def __init__(self, prop):
        self.prop = prop
        self.known = load_known()
        self.violations = []      # (sig, replay_path)
        self.known_hits = {}      # finding id -> count
        self.inconclusive = []
        self.by_sig = {}          # signature -> [sig, replay path, count]
        # replay files of earlier runs of this property are stale once a new run starts
        if os.path.isdir(REPLAYS) and "--replay" not in sys.argv:
            for f in os.listdir(REPLAYS):
                if f.startswith(prop + "-") and f.endswith(".json"):
                    try:
                        os.remove(os.path.join(REPLAYS, f))
                    except OSError:
                        pass

    def fail(self, sig, replay_payload, name):
        k = match_known(self.prop, sig, self.known)
        if k:
            self.known_hits[k["id"]] = self.known_hits.get(k["id"], 0) + 1
            return
        key = json.dumps(sig, sort_keys=True)
        if key in self.by_sig:
            self.by_sig[key][2] += 1
            self.violations.append((sig, self.by_sig[key][1]))
            return
        if len(self.by_sig) < 12:
            path = write_replay(self.prop, name, replay_payload)
        else:
            path = next(iter(self.by_sig.values()))[1]
        self.by_sig[key] = [sig, path, 1]
        self.violations.append((sig, path))

    def finish(self):
        for k in self.known:
            if k["id"] in self.known_hits:
                print("KNOWN-FINDING: property=%s %s (%d cases; %s)" % (self.prop, k["what"], self.known_hits[k["id"]], k["id"]))
        seen = set()
        for key, (sig, path, n) in self.by_sig.items():
            if path in seen:
                continue
            seen.add(path)
            print("VIOLATION property=%s replay=%s" % (self.prop, path))
            log("   %d case(s) like %s" % (n, json.dumps(sig)[:400]))
        sys.stdout.flush()
        return 1 if self.violations else 0
