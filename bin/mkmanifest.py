#!/usr/bin/env python3
"""Regenerates /verif/MANIFEST.json from the table below (one source of truth for the registered checks)."""
import json
import os
import subprocess

VERIF = os.path.dirname(os.path.dirname(os.path.abspath(__file__)))

CHECKS = {
    "C01": dict(
        technique="TLA+ spec (Wire/Encoder/Decoder) + TLC model checking (MCRoundTrip) + TLC trace validation of recorded encode/size/decode events",
        text="TLC checks exhaustively on the boundary domain (all 64 bit-length classes, sign boundaries, NaN payloads, 8-13 field numbers, lists <= 3) that the "
             "specification's canonical encoding fills the size predicted by the helpers' closed forms exactly and decodes back to the value written; the real "
             "Encoder, size helpers and Decoder (both modes) are then run on that domain plus seeded random full-width values and every recorded event is judged by TLC "
             "against the same operators (TraceCodec).",
        note="trusted: TLC, the 20-line digit/byte conversion in harness/internal/tr, the encoder write-cursor accessor (verif hook); the literal 'all 2^32 values' clause is covered by class-exhaustive boundaries + random samples, not by 2^32 evaluations",
        ref="7 (C01), 2, 3"),
    "C02": dict(
        technique="TLA+ spec (Wire!CanonField, Decoder!RefSkip) + TLC model checking (MCRoundTrip CanonMinimal, MCDecoder SkipExact) + TLC trace validation with protowire as cross-reference",
        text="csproto's bytes for every (kind, field number, value) case are compared by TLC with the specification's canonical encoding, which is itself compared with "
             "protowire's output on every case (a spec/reference disagreement is inconclusive, never a violation); reference-produced bytes are decoded by csproto and "
             "judged as 'must' items; DecodeTag/Skip walks over random well-formed field sequences are validated step by step and by concatenation.",
        note="trusted: TLC, protowire as independent reference, harness conversions",
        ref="7 (C02)"),
    "C03": dict(
        technique="TLA+ requirement spec (Decoder) + implementation-shaped model (DecoderImpl) checked by TLC to refine it on all buffers of the bounded domain; every "
                  "(state, call) of that domain and random/mutated long inputs replayed on the real Decoder and validated by TLC (TraceCodec)",
        text="exhaustive over the bounded domain: every byte string up to length 3 (quick) / 4 (thorough) over a wire-significant alphabet plus structured families (huge "
             "declared lengths, 9/10/11-byte varints, fixed-width truncations) x every offset x both modes x every decoder method; TLC proves the implementation model never "
             "panics, stays in bounds and succeeds only with the reference item; the real code is compared with both the requirement spec (verdict) and the implementation "
             "model (drift) on the same domain, and on seeded random call sequences over mutated long inputs.",
        note="trusted: TLC, runtime.ReadMemStats for the allocation bound (64*len+4096 bytes per call; an excess is re-measured three times and the smallest reading kept), "
             "poisoned spare capacity to expose reads beyond len; a fatal runtime error (out of memory) in a decoder call is attributed through an intent file and reproduced "
             "twice in a child process before TLC is given 'crash' as that call's outcome",
        ref="7 (C03), Appendix A"),
    "C19": dict(
        technique="TLA+ spec (Encoder!ExplainsEncNested, Decoder Nested/NestedMsg) + TLC model checking (MCDecoder incl. nested stub calls) + TLC trace validation of recorded EncodeNested/DecodeNested events",
        text="EncodeNested is recorded for five nested-message flavours x sizes around the 1/2-byte length boundary x first/middle/last position x failing marshalers; TLC "
             "requires key ++ length ++ exactly csproto.Marshal's bytes (cross-checked with the owning runtime) and the cursor advanced by that amount; DecodeNested is "
             "validated with a recording stub on the whole C03 domain (not invoked when the declared length exceeds the buffer; its error returned unchanged) and with real messages.",
        note="trusted: TLC, the stub (un)marshalers in the harness; the google-v1-legacy flavour is exercised through the schema corpus checks once built",
        ref="7 (C19)"),
}

CHECKS.update({
    "C13": dict(
        technique="TLA+ spec (Lazy: accessor semantics over Wire!ParseAll; LazyDef: definitions and their builder API) + TLC model checking (MCLazy coherence; MCLazyDef enumerating every builder script, replayed on the real Def) + TLC trace validation of recorded accessor/nested/Range events and Def operations",
        text="TLC checks the accessor semantics of the specification for coherence on every message of up to 2 (quick) / 3 (thorough) fields from a 13-field alphabet x 4 "
             "definitions; the real lazyproto is run on seeded random value trees (all wire types, repeated, packed, nested to depth 2, 1 in 6 mutated) x random "
             "definitions (flat, nested, negative tags, absent tags) x all 26 typed accessors (through FieldData and through the DecodeResult helpers) x paths x "
             "NestedResult(s) x Range x {Decode function, Decoder with random options} and every event is judged by TLC against the reference parse of that result's input.",
        note="trusted: TLC, protowire as the independent message writer, harness value conversion and error classification (errors.Is / errors.As)",
        ref="7 (C13)"),
    "C14": dict(
        technique="TLA+ implementation-shaped model of the pooled results (LazyPool; sync.Pool.Get = any pooled or fresh object) model-checked by TLC for Isolation / NoPanic / "
                  "Exclusive, with the as-found trunc as expected-violation config; random operation histories on the real Decoder validated by TLC (TraceLazy)",
        text="TLC explores every choice the pool may make over 3 input shapes x buffer limits {none,0,1,2} (about 10^6 states per config) and shows that the modelled close/trunc "
             "protocol keeps results isolated and never dereferences a nil closer (and that the pinned trunc did); the real code is driven through seeded random histories "
             "(Decode, accessors, NestedResult(s), Range, Close; up to 3 live results; GC off so that reuse really happens; 30 option combinations) and every value is judged "
             "against the reference parse of that result's own input, plus stability of values handed out in safe mode after Close and later decodes.",
        note="trusted: TLC; pool reuse is observed, not forced (a run with zero reuses is inconclusive); histories follow the documented life cycle (no use after Close)",
        ref="7 (C14), Appendix C"),
    "C15": dict(
        technique="TLA+ LazyPool model with G goroutines interleaved at pool.Get/pool.Put granularity model-checked by TLC (all interleavings, G=2; G=3 thorough) + per-goroutine "
                  "value traces and hook-stamped ownership traces of the real Decoder validated by TLC; Go race detector as sensor",
        text="the interleaving space is explored by TLC on the model (exclusive ownership, own values); the real Decoder is shared by G in {8,64} (thorough also 2,16) "
             "goroutines with GOMAXPROCS in {1,2,4,16} and injected yields; each goroutine's values are judged against its own inputs, pool get/put events (atomic sequence "
             "number taken inside the verif hook) are checked for exclusivity, and a race-detector report that involves csproto code is an unexplainable event.",
        note="trusted: TLC, the Go race detector (-race build of the harness with no harness-side synchronisation between library calls), the verif hook placement (after pool.Get, before pool.Put)",
        ref="7 (C15), 8"),
})

GEN_NOTE = ("trusted: TLC; the harness walkers (protoreflect for google-v2 types, struct tags for gogo types) that convert between generated structs and the abstract "
            "message without calling generated methods; dynamicpb as cross-check (spec/reference disagreement = inconclusive). Coverage is as wide as the corpus: "
            "feature-matrix + atomic schemas x {gogo, google-v2} x option sets {default, filepermessage, enableunsafedecode}")
CHECKS.update({
    "C04": dict(
        technique="TLA+ spec (Message: ParseMsg/EncMsg/RequiredOK over schema-as-data) + TLC model checking (MCMessage) + TLC trace validation of recorded Size/Marshal/MarshalTo events of freshly generated code",
        text="(plus: values of every proto2 extension kind - declared in two message scopes and at file level - through Size/Marshal/MarshalTo, judged by TraceDispatch!ExtRtOK; "
             "messages carrying unknown fields at the top level and in nested messages; field numbers at every key-size boundary.) "
             "the plug-in rebuilt from /repo generates code for the corpus; for every type every field alone at each boundary value (lists of 1/2/3/31/32/33, empty nested "
             "messages, map and oneof shapes) and seeded random combinations are marshaled; TLC requires no panic, len(Marshal) = Size, MarshalTo into make([]byte, Size) "
             "writing exactly Size bytes (poisoned spare capacity) with the same content. MCMessage validates the specification itself (round trip, concatenation = merge law).",
        note=GEN_NOTE, ref="7 (C04), Appendix B"),
    "C05": dict(
        technique="same pipeline as C04; verdict = Message!ParseMsg(schema, bytes) equals the abstract message the value was built from (presence-aware), cross-checked with dynamicpb",
        text="the bytes of every C04 case are parsed by the specification's reference unmarshal from the schema alone and must equal the original abstract message including field "
             "presence (no phantom fields, nothing dropped, no value altered); dynamicpb parses the same bytes and must agree with the specification; an extension declared in another file "
             "than its extendee (descriptor unknown to the generated code) set on the message must be in the bytes (recorded finding: it is dropped).",
        note=GEN_NOTE, ref="7 (C05)"),
    "C06": dict(
        technique="TLA+ spec (Message!ParseMsg with merge / last-wins / packed-unpacked / map-entry semantics, validated by MCMessage's concatenation law) + TLC trace validation of generated Unmarshal on legal encoding variants",
        text="value trees are rendered by an independent protowire encoder into legal variants (field order permuted, packing flipped or split into several runs, singular "
             "scalars duplicated, sub-messages split over two occurrences, map entries value-first or with key/value omitted, unknown fields interleaved); the generated Unmarshal "
             "runs on a destination pre-populated with other content and its projection must equal the specification's parse of the same bytes. The generated map-entry decoder is also "
             "modelled as a cursor machine (GenMapEntry) that TLC checks against the reference meaning of an entry over every payload of a bounded alphabet; the same payload domain is run "
             "through the real generated code and judged by TraceMapEntry.",
        note=GEN_NOTE, ref="7 (C06)"),
    "C07": dict(
        technique="same traces as C06, continued with Size and Marshal of the unmarshaled message; TLC compares the unknown bytes (recursively) of ParseMsg(output) with those of the input and Size with len",
        text="every C06 variant carrying unknown fields (all four wire types, numbers below/between/above known ones up to 2^29-1, top level and nested) must re-emit them byte for byte and count them in Size.",
        note=GEN_NOTE, ref="7 (C07)"),
    "C08": dict(
        technique="TLA+ spec (Message!ParseMsg as reference outcome) + TLC trace validation of generated Unmarshal on mutated encodings (truncation, substitution, length inflation, random bytes)",
        text="no panic, allocation bounded by 256*len+64KiB per call, and whenever both the generated Unmarshal and the reference runtime (dynamicpb) accept an input the decoded messages are equal; "
             "mutations include wire-type flips at every nesting level, length prefixes replaced by 2^20 .. 2^64-1, sandwich encodings with unknown fields around every field; every map-entry payload "
             "of GenMapEntry's bounded domain (valid and malformed) goes through the generated decoder.",
        note=GEN_NOTE + "; allocation measured with runtime.ReadMemStats", ref="7 (C08)"),
    "C16": dict(
        technique="TLA+ spec (Generator: documented naming, GenOK) + TLC model checking of the naming function (MCGenerator, non-injectivity kept as expected violation) + TLC judging one recorded plug-in run per corpus file x flavour x option set",
        text="exhaustive over the corpus product (60 schema files x {gogo, google-v2, legacy google-v1 where it applies} x 3 option sets = 355 plug-in requests): the plug-in must succeed twice (different cwd, GOMAXPROCS, TZ) with byte-identical "
             "output, emit each documented name exactly once, emit the same bytes for a file when it is the second file of a two-file request (Generator!Compositional; GenLoop.tla models "
             "the per-file loop of the plug-in process and keeps 'parse the templates once' as an expected violation), and the output must parse (go/parser) and compile with the runtime's own generated types (go build).",
        note="trusted: TLC, go/parser and go build as sensors for 'valid Go that compiles'; the runtime generators (protoc-gen-go, protoc-gen-gogo) driven without protoc through the plug-in protocol",
        ref="7 (C16), 5"),
    "C17": dict(
        technique="TLA+ spec (Message!RequiredOK, recursive) + TLC trace validation of Marshal and Unmarshal events of the proto2 corpus types with subsets of required fields unset at every nesting position",
        text="Marshal must fail iff RequiredOK is false for the abstract message (top level, singular nested, repeated element, map value, oneof member; including the all-unset message "
             "of encoded size 0); Unmarshal must fail on encodings whose reference parse lacks a required field (including the empty input) and must not report a required-field error otherwise.",
        note=GEN_NOTE, ref="7 (C17)"),
})

CHECKS.update({
    "C09": dict(
        technique="TLA+ implementation-shaped model of the size-cache protocol (GenCodec: recompute variant and concurrent readers model-checked, templates-as-found kept as expected violation) "
                  "+ TLAPS proofs for any number of readers / histories of any length (proofs/GenCodecProof) "
                  "+ TLC trace validation of operation histories against the fresh-copy oracle, with the model's cache word run along the trace (TraceGen!NextMc, guarded deviation Stale)",
        text="seeded random histories over {set, clear, grow, shrink, set nested, Size, Marshal, MarshalTo, csproto.Size/Marshal, runtime Size/Marshal, Unmarshal, Reset, Clone} on generated "
             "types of three flavours; after every step the object is projected and a fresh deep copy is built by the walkers and marshaled - every Size/Marshal must equal the fresh copy's; "
             "the observed cache word must equal the implementation model's prediction (drift) and the known stale-cache deviation only explains events the model predicts; N goroutines call "
             "Size/Marshal on a frozen message under the race detector; messages WITHOUT generated code (marshal.go / sizeof.go delegate to the runtime) get histories of "
             "csproto / runtime / gRPC-codec sizing and marshaling calls and in-place growth of a nested message, ended by csproto.Marshal with and without a Size call before it (plainhist).",
        note=GEN_NOTE + "; the size-cache word is read with reflect/unsafe from the generated struct (sizeCache / XXX_sizecache)", ref="7 (C09), Appendix D"),
    "C10": dict(
        technique="TLC trace validation of Unmarshal -> project -> clobber/truncate/recycle the input buffer -> project events on generated types (TraceGen!A10) and of lazyproto accessor values "
                  "across clobbering (TraceLazy); pointer-overlap of every string/bytes value with the input buffer measured by the harness",
        text="for every corpus type and value with variable-length content (strings, bytes, repeated, map keys/values, oneof members, nested, unknown fields) decoded in the default mode, the "
             "projected message must be unchanged after the caller overwrites, truncates or reuses its buffer and no value may point into it; types generated with enableunsafedecode are "
             "exempt; every lazyproto accessor in safe mode likewise.",
        note=GEN_NOTE, ref="7 (C10)"),
    "C20": dict(
        technique="TLA+ spec (Tools: HexRef, streaming automaton, DumpRef over Wire!ParseAll) + TLC model checking (MCTools: the two formulations of the annotated-hex language agree on all "
                  "texts up to 6/8 symbols) + TLC trace validation of recorded ParseAnnotatedHex calls and protodump runs",
        text="the real parser is run on every text of the bounded domain (six symbol classes with rotating concrete representatives incl. tab, CR, NBSP, U+2003, upper/lower case digits) and on "
             "random renderings/corruptions of random byte strings; protodump (built from /repo) is run on random messages x expand/strings path sets x {-file, redirected stdin, pipe} and on "
             "malformed variants; its output is parsed back into (indent, tag, wire type, value) tuples and must equal DumpRef, malformed input must give a non-zero exit without a crash.",
        note="trusted: TLC, the harness's character classification and output parser; protodump's exit status and stderr as sensors", ref="7 (C20)"),
})

CHECKS.update({
    "C11": dict(
        technique="TLA+ spec (Dispatch: MsgType cache protocol, DispatchTable: per-flavour decision table) + TLC model checking of all interleavings of racing first classifications "
                  "(MCDispatch; store-before-deduce kept as expected violation) + TLAPS proof of the protocol for any number of goroutines (proofs/DispatchProof) + TLC trace validation of recorded csproto API calls on every flavour (TraceDispatch)",
        text="every corpus fast-marshal type of gogo / google-v2 / legacy google-v1 plus plain well-known and descriptor types of both module families, and values no runtime owns, go "
             "through csproto.{Marshal, Unmarshal, Size, Clone, Equal, Reset, MarshalText, GrpcCodec, MsgType}; the harness measures agreement with the owning runtime's own function in both "
             "directions; G goroutines race on first classification after VerifResetMsgTypeCache (separate processes for fresh caches).",
        note="trusted: TLC, the runtimes' own functions as the oracle for 'the runtime's own result'; legacy google-v1 types are gogo output with the import rewritten", ref="7 (C11)"),
    "C12": dict(
        technique="TLA+ spec (Extensions: abstract extension state) + TLC enumerating every Set/Clear/ClearAll script of bounded depth (MCExtensions) replayed on real messages + TLC trace "
                  "validation of all observations after every step (TraceDispatch!ExtOK)",
        text="TLC-generated scripts over three extension slots x two values plus a LATE-BOUND slot (an extension that arrived in encoded form because its descriptor was unknown when the "
             "owning runtime decoded the message: arrive / getlate / setlate / clearlate; raw and decoded representation, the legacy google-v1 deviation LateDecodes = FALSE named in the model) "
             "are replayed on the extendable corpus message of each flavour under six slot-to-kind mappings (int32, string, message, enum, bytes, sint64, fixed32, double, bool, extensions with "
             "explicit defaults ...); after each step Has/Get/Range/field-number/marshaled bytes/runtime's own Has must equal the model state; mismatching "
             "descriptor probes (descriptor of another runtime, same and different field number) must give false/error and leave the message untouched.",
        note="trusted: TLC, the owning runtime's extension API as oracle; the size-cache word is zeroed before the marshal observation (C09's recorded finding is not C12's)", ref="7 (C12)"),
    "C18": dict(
        technique="TLA+ implementation-shaped model of one adapter call (JsonAdapter: nil check, delegation, detection order, per-runtime option wiring) + TLC model checking of the "
                  "documented requirement over every message kind x option set x input feature (three wiring/ordering slips kept as expected violations) + matrix coverage of "
                  "the model's reachable cells by the recorded calls + TLC trace validation of every recorded MarshalJSON/UnmarshalJSON call (TraceDispatch!JsonOK)",
        text="corpus message values (enums, 64-bit integers, bytes, maps, oneofs, nested, well-known and descriptor types) x three flavours x 2^3 marshal options x indent strings: output must "
             "be valid JSON, decode with the adapter and with the runtime's own JSON decoder to an equal message, and show exactly the option's effect; unmarshal inputs with/without unknown "
             "keys and missing required fields x 2^2 options must be accepted exactly as documented; nil and non-pointer values.",
        note="trusted: TLC, encoding/json.Valid, the runtimes' own jsonpb/protojson decoders; effects are measured on the JSON text by the harness (enum rendered as number, zero key present, "
             "line prefixes)", ref="7 (C18)"),
})

NOT_YET = {
    "C04": "check not built yet (generated-code corpus pipeline in progress)",
    "C05": "check not built yet (generated-code corpus pipeline in progress)",
    "C06": "check not built yet (generated-code corpus pipeline in progress)",
    "C07": "check not built yet (generated-code corpus pipeline in progress)",
    "C08": "check not built yet (generated-code corpus pipeline in progress)",
    "C09": "check not built yet (GenCodec model in progress)",
    "C10": "check not built yet (GenCodec model in progress)",
    "C11": "check not built yet (Dispatch model in progress)",
    "C12": "check not built yet (Extensions model in progress)",
    "C13": "check not built yet (Lazy model in progress)",
    "C14": "check not built yet (LazyPool model in progress)",
    "C15": "check not built yet (LazyPool model in progress)",
    "C16": "check not built yet (Generator model in progress)",
    "C17": "check not built yet (generated-code corpus pipeline in progress)",
    "C18": "check not built yet (JsonAdapter model in progress)",
    "C20": "check not built yet (Tools model in progress)",
}


def hook_commits():
    try:
        out = subprocess.run(["git", "-C", "/repo", "log", "--format=%H", "--grep=^verif:"], capture_output=True, text=True).stdout.split()
        return out
    except Exception:
        return []


def main():
    checks = []
    for pid, c in sorted(CHECKS.items()):
        checks.append({
            "property_id": pid,
            "quick_cmd": "bin/check %s --tier quick" % pid,
            "thorough_cmd": "bin/check %s --tier thorough" % pid,
            "evidence_file": "/verif/evidence/%s.json" % pid,
            "replay_cmd_template": "bin/check %s --replay {path}" % pid,
            "engine": "tlc",
            "level_claimed": {"category": c.get("level", "model_checking"), "text": c["text"], "design_ref": "DESIGN.md section " + c["ref"]},
            "level_note": c["note"],
            "technique": c["technique"],
        })
    m = {
        "version": 1,
        "setup_cmd": "bin/setup",
        "hooks": {
            "guard": "verif",
            "enable": "go build -tags verif (the harness in /verif/harness is always built with -tags verif against /repo's working tree)",
            "baseline_off_cmd": "cd /repo && GOFLAGS=-mod=mod GOPROXY=off GOSUMDB=off go test -vet=off -count=1 ./...",
            "source_commits": hook_commits(),
            "add_only": True,
        },
        "engines": [
            {"name": "tlc", "path": "/verif/spec", "serves_properties": sorted(CHECKS),
             "kind_free_text": "explicit TLA+ specification suite checked with TLC 1.8 (model checking configs under spec/cfg) and bound to the Go code by trace validation "
                               "(Trace*.tla) of events recorded by the harness in /verif/harness; orchestrated by bin/check"},
        ],
        "checks": checks,
        "notes": "All verdicts come from TLC judging events recorded from code rebuilt from /repo's working tree; see DESIGN.md. Exit 2 = inconclusive (never a violation).",
        "not_applicable": [{"property_id": p, "reason": r} for p, r in sorted(NOT_YET.items()) if p not in CHECKS],
    }
    with open(os.path.join(VERIF, "MANIFEST.json"), "w") as f:
        json.dump(m, f, indent=1)
        f.write("\n")


if __name__ == "__main__":
    main()
