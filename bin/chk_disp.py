"""C11, C12, C18: the runtime-agnostic API (dispatch, extension accessors, JSON adapters).

C11: TLC model-checks the type-cache protocol of MsgType (all interleavings of 3 goroutines; the
store-before-deduce mutant is an expected violation); the decision table is replayed on messages of
every flavour (fast-marshal gogo / google-v2 / legacy google-v1 from the corpus, plain google-v2 and
gogo types) and on unsupported values, and every recorded call is judged by TraceDispatch.
C12: TLC enumerates every operation script up to a bounded depth over three extension slots
(MCExtensions); the scripts are replayed on extendable corpus messages of every flavour under five
slot-to-kind mappings and after every step all observations are compared with the model's state.
C18: TLC model-checks the adapter model (JsonAdapter: nil check, delegation, detection order, per-path option wiring; three
slips are expected violations) and enumerates the matrix of cells; the recorded MarshalJSON / UnmarshalJSON calls must cover
the matrix and each is judged by TraceDispatch!JsonOK.
"""
import glob
import json
import os
import re
import shutil
import time

import corpus
import vflib as V
from chk_lazy import tlc_expect_violation

TIERS = {
    "C11": {"quick": dict(fam="dispatch", random=3, g=8, shards=8, sets="default", procs=4),
            "thorough": dict(fam="dispatch", random=25, g=64, shards=16, sets="default,permsg,unsafe", procs=16)},
    "C12": {"quick": dict(fam="ext", random=0, shards=8, sets="default", mc="MCExtensions_quick.cfg", maxscripts=0),
            "thorough": dict(fam="ext", random=0, shards=16, sets="default,permsg", mc="MCExtensions_thorough.cfg", maxscripts=0)},
    "C18": {"quick": dict(fam="json", random=3, shards=8, sets="default"),
            "thorough": dict(fam="json", random=30, shards=16, sets="default,permsg")},
}

RULES = {
    "C11": "one case = one call of csproto.{Marshal, Unmarshal, Size, Clone, Equal, Reset, MarshalText, GrpcCodec.*, MsgType} on one message value of one flavour "
           "(corpus fast-marshal types of gogo / google-v2 / legacy google-v1, plain well-known and descriptor types) or on a value no runtime owns, plus racing first "
           "classifications after a cache reset; the harness measures agreement with the owning runtime's own function; distinct = distinct (type, value, op); non-trivial = all",
    "C12": "one case = one step of a TLC-enumerated operation script (Set/Clear/ClearAll over three extension slots x two values, all scripts of the bounded depth) on an "
           "extendable corpus message, with all observations (Has, Get, Range, field in marshaled bytes, runtime's own Has, field number) recorded after the step; plus "
           "mismatching-descriptor probes; distinct = distinct (flavour, mapping, script prefix); non-trivial = at least one extension is set before or after the step",
    "C18": "one case = one MarshalJSON call (message value x 2^3 option sets x indent strings) or one UnmarshalJSON call (unknown key x missing required field x 2^2 options); "
           "distinct = distinct (type, value, options); non-trivial = the message is not empty",
}


def check(prop, tier, seed, replay_path=None, selftest=False, keep=False):
    t0 = time.time()
    scratch = V.Scratch(keep)
    verdicts = V.Verdicts(prop)
    try:
        cfg = dict(TIERS[prop][tier])
        if replay_path:
            rp = json.load(open(replay_path))
            cfg, seed = rp["cfg"], rp["seed"]
        mcs, expected = [], []
        tlaps = None
        scripts = None
        if prop == "C11":
            mcs.append(V.tlc_mc(scratch, "MCDispatch", "MCDispatch.cfg"))
            # liveness under weak fairness of each goroutine's steps: every classification returns, a cached answer stays
            mcs.append(V.tlc_mc(scratch, "MCDispatch", "MCDispatch_live.cfg"))
            expected.append(tlc_expect_violation(scratch, "MCDispatch", "MCDispatch_storefirst.cfg", "ResultIsDeduce"))
            tlaps = V.tlaps_prove(scratch, "DispatchProof", ["Dispatch.tla"],
                                   "Spec => [](ResultIsDeduce /\\ cache entries equal Class) for every G in Nat and every non-empty set of types")
        if prop == "C12":
            # TLC enumerates the scripts (single worker: they are printed from an invariant)
            m = V.tlc_mc(scratch, "Extensions", cfg["mc"], workers=1)
            mcs.append(m)
            log = open(os.path.join(scratch.dir, "mc-" + cfg["mc"].replace(".cfg", ""), "tlc.log")).read()
            scripts = scratch.path("scripts.txt")
            # (TLC wraps long values over several lines: split on the marker, not on line ends)
            lines = ["SCRIPT " + " ".join(re.findall(r'<<"[a-z]+", \d+, \d+>>', chunk.split("Model checking completed")[0]))
                     for chunk in re.split(r'<<\s*"SCRIPT",', log)[1:]]
            if not lines:
                raise V.Inconclusive("TLC emitted no scripts")
            with open(scripts, "w") as f:
                f.write("\n".join(lines) + "\n")
            # the same machine with the named deviation of the legacy google-v1 flavour (a Get cannot decode a late-bound field)
            mcs.append(V.tlc_mc(scratch, "Extensions", "MCExtensions_nodecode.cfg", workers=4))
        cells = None
        if prop == "C18":
            # the adapter model: requirement holds for json.go as found; three realistic wiring / ordering slips are expected violations;
            # the reachable (direction, runtime, options[, input features]) cells are the matrix the recorded calls have to cover
            m = V.tlc_mc(scratch, "JsonAdapter", "JsonAdapter.cfg", workers=1)
            mcs.append(m)
            log = open(os.path.join(scratch.dir, "mc-JsonAdapter", "tlc.log")).read()
            cells = set(re.sub(r"\s+", "", l.split('"CELL",', 1)[1]).rstrip(">").lstrip("<") for l in log.splitlines() if '"CELL"' in l)
            if not cells:
                raise V.Inconclusive("TLC emitted no cells")
            for v in ("swap_v1", "drop_v2_unknown", "v1_before_v2"):
                expected.append(tlc_expect_violation(scratch, "JsonAdapter", "JsonAdapter_%s.cfg" % v, "Req"))
        cdir, entries, drv = corpus.build(scratch)
        outp = scratch.path("tr-" + prop)
        args = [drv, "-fam", cfg["fam"], "-seed", str(seed), "-random", str(cfg["random"]), "-shards", str(cfg["shards"]), "-out", outp, "-sets", cfg["sets"]]
        for k in ("g", "procs", "maxscripts"):
            if cfg.get(k):
                args += ["-" + k, str(cfg[k])]
        if scripts:
            args += ["-scripts", scripts, "-filter", "p2ext"]
        p = V.run(args, timeout=3600)
        info = json.loads(p.stdout.strip().splitlines()[-1])
        race_runs = 0
        if prop == "C11" and not replay_path:
            # the racing first classifications once more under the race detector (its verdict is a sensor reading: a report that names
            # csproto is an unexplainable event, any other report is a defect of the harness)
            rdrv = corpus.build_race(scratch, cdir)
            racelog = scratch.path("race-dispatch")
            rargs = [rdrv, "-fam", cfg["fam"], "-seed", str(seed), "-random", "0", "-shards", "1", "-out", scratch.path("tr-race"), "-sets", "default",
                     "-g", str(cfg.get("g", 8)), "-procs", str(cfg.get("procs", 4)), "-filter", "p2ext,p3/"]
            V.run(rargs, timeout=3600, extra_env={"GORACE": "log_path=%s halt_on_error=0 exitcode=0" % racelog})
            race_runs = 1
            reports = glob.glob(racelog + "*")
            if reports:
                txt = "".join(open(x).read() for x in reports)
                if "github.com/CrowdStrike/csproto" not in txt and "verif/corp/gen" not in txt:
                    raise V.Inconclusive("race report not involving csproto or generated code (harness defect):\n" + txt[:1500])
                verdicts.fail({"c": "race", "kind": "data-race"}, {"property": prop, "race_report": txt[:4000], "cfg": cfg, "seed": seed}, "race")
        files = sorted(glob.glob(outp + ".*.ndjson"))
        results = V.tlc_trace(scratch, "TraceDispatch", "TraceDispatch.cfg", files, label="tv-" + prop)
        seen, nont, samples = set(), set(), []
        nev, nfail, ngroups = 0, 0, 0
        covered = set()
        for tf, r in results:
            events = V.load_events(tf)
            if r["n"] != len(events):
                raise V.Inconclusive("TLC consumed %d of %d events" % (r["n"], len(events)))
            if r["desync"]:
                raise V.Inconclusive("malformed events: %s" % json.dumps(events[r["desync"][0] - 1])[:400])
            nev += len(events)
            prefix = ()
            for e in events:
                if e["c"] == "extnew":
                    prefix = (e["key"], e["mapping"])
                    ngroups += 1
                if e["c"] == "extop":
                    prefix = prefix + (json.dumps(e["op"]),)
                h = hash((e["c"], json.dumps(e["op"]), e["key"], e["dir"], e["enumnums"], e["emitzero"], e["indent"], e["unkkey"], e["missreq"], e["allowunk"],
                          e["allowpartial"], e["raw"][:200], prefix if e["c"] == "extop" else ()))
                seen.add(h)
                if prop != "C12" or (e["c"] == "extop" and (any(e["has"]) or e["op"][0] != "clearall")) or e["c"] == "extmis":
                    nont.add(h)
            if cells is not None:
                for e in events:
                    if e["c"] == "json" and not e["nilmsg"] and e["fl"] in ("gogo", "googlev1", "google"):
                        tf_ = lambda b: "TRUE" if b else "FALSE"
                        if e["dir"] == "marshal":
                            covered.add('"marshal","%s",%d,%s,%s' % (e["fl"], min(e["indent"], 2), tf_(e["enumnums"]), tf_(e["emitzero"])))
                        else:
                            covered.add('"unmarshal","%s",%s,%s,%s,%s' % (e["fl"], tf_(e["unkkey"]), tf_(e["missreq"]), tf_(e["allowunk"]), tf_(e["allowpartial"])))
            for k in (1, len(events) // 2):
                if len(samples) < 4 and len(events) > k:
                    e = events[k]
                    samples.append({f: v for f, v in e.items() if v not in ([], "", 0)})
            for i in r.get("mfail", []):
                e = events[i - 1]
                kinds = e["mapping"].split(",")
                sig = {"c": "extop", "kind": "marshal-failed", "fl": e["fl"],
                       "v1api_scalar_set": int(e["fl"] in ("gogo", "googlev1") and any(h and k not in ("msg", "bytes") for h, k in zip(e["has"], kinds)))}
                verdicts.fail(sig, {"property": prop, "cfg": cfg, "seed": seed, "observed": e}, "m%d-%d" % (nfail, i))
                nfail += 1
            for i in r["bad"]:
                e = events[i - 1]
                sig = {"c": e["c"], "op": e["op"] if isinstance(e["op"], str) else e["op"][0], "fl": e["fl"], "st": e["st"], "dir": e["dir"], "kind": "unexplained"}
                if e["c"] == "extop":
                    kinds = e["mapping"].split(",")
                    slot = e["op"][1]
                    sig["ext_kind"] = kinds[slot - 1] if slot else ""
                    sig["marshal_failed"] = int(-1 in e["inb"])
                    sig["v1api_scalar_set"] = int(e["fl"] in ("gogo", "googlev1") and any(h and k not in ("msg", "bytes") for h, k in zip(e["has"], kinds)))
                verdicts.fail(sig, {"property": prop, "cfg": cfg, "seed": seed, "observed": e}, "%d-%d" % (nfail, i))
                nfail += 1
        rc = verdicts.finish()
        missing = sorted(cells - covered) if cells is not None else []
        if missing and not replay_path:
            # cells with a missing required field need a proto2 type with required fields of that flavour; everything else must be covered
            hard = [c for c in missing if not (c.startswith('"unmarshal"') and c.split(",")[3] == "TRUE")]
            if hard:
                raise V.Inconclusive("the recorded calls do not cover %d of the %d cells of JsonAdapter, e.g. %s" % (len(hard), len(cells), hard[:3]))
        if replay_path:
            print("replay: %d events re-recorded, %s" % (nev, "violation reproduced" if rc else "no violation"))
            return rc
        cov = {"states": sum(m["states"] for m in mcs) or 1, "transitions": sum(m["transitions"] for m in mcs) or 1,
               "traces_validated_against_impl": ngroups or len(results),
               "evaluations": nev, "distinct_nontrivial": len(nont), "distinct_cases": len(seen), "rule": RULES[prop], "samples": samples,
               "exhaustive": prop == "C12", "expected_violation_configs": expected,
               "tlc_generated_scripts": len(open(scripts).read().splitlines()) if scripts else 0,
               "tlaps": tlaps, "race_detector_runs": race_runs if prop == "C11" else 0,
               "matrix_cells": {"reachable_in_model": len(cells), "covered_by_recorded_calls": len(cells & covered), "not_covered": missing} if cells is not None else None,
               "explanation": ("TLC model checking: " + "; ".join("%s/%s %d states" % (m["module"], m["cfg"], m["states"]) for m in mcs) + ". " if mcs else
                               "") +
                              "Trace validation: TraceDispatch.",
               "known_findings_fired": sorted(verdicts.known_hits)}
        level = "model_checking" if mcs else "exploration"
        V.write_evidence(prop, tier, seed, level, cov, [
            "agreement with the owning runtime is measured by the harness with that runtime's own Marshal/Unmarshal/Equal/Clone/Text/JSON functions",
            "legacy google-v1 types are gogo-generator output with the import path rewritten to github.com/golang/protobuf/proto (the only kind of type csproto classifies as GoogleV1)",
        ], time.time() - t0, len(verdicts.violations))
        return rc
    finally:
        scratch.cleanup()
