#!/usr/bin/env python3
"""tsum.py <dir with trace.ndjson + result.json> : summarise flagged events (development aid)."""
import json, sys, collections
d = sys.argv[1]
r = json.load(open(d + '/result.json'))
ev = [json.loads(l) for l in open(d + '/trace.ndjson')]
print('n', r['n'], 'bad', len(r['bad']), 'drift', len(r.get('drift', [])), 'desync', len(r['desync']))
c = collections.Counter(); ex = {}
for nm in ('bad', 'drift', 'desync'):
    for i in r.get(nm, []):
        e = ev[i - 1]
        k = (nm, e.get('c'), e.get('op', e.get('acc')), e.get('k', e.get('entry')), e.get('st'), str(e.get('note', ''))[:50])
        c[k] += 1; ex.setdefault(k, i)
for k, v in c.most_common(40):
    print(v, k, ex[k])
