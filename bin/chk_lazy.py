"""C13, C14, C15 (and the lazy half of C10): lazyproto.

TLC model checking: MCLazy (the accessor semantics of Lazy.tla are coherent), MCLazyPool (the pooled
result objects keep Isolation / NoPanic / Exclusive under every choice sync.Pool may make and every
interleaving of pool.Get / pool.Put; the as-found trunc is kept as an expected violation).
Conformance: the Go harness records operation histories on the real lazyproto rebuilt from /repo and
TLC judges every event against the reference parse of the result's own input (TraceLazy).
"""
import glob
import json
import os
import re
import time

import vflib as V

SEQ_CFGS = ["MCLazyPool_seq_nolimit.cfg", "MCLazyPool_seq_max0.cfg", "MCLazyPool_seq_max1.cfg", "MCLazyPool_seq_max2.cfg",
            "MCLazyPool_seq_halve.cfg", "MCLazyPool_seq_zero_max2.cfg", "MCLazyPool_seq_neg.cfg"]

TIERS = {
    "C13": {"quick": dict(runs=[dict(fam="acc", iters=500, shards=6), dict(fam="pool", iters=30, hist=2, shards=4)], mc=[("MCLazy", "MCLazy_quick.cfg")],
                          defs=["MCLazyDef_quick.cfg", "MCLazyDef_quick2.cfg"]),
            "thorough": dict(runs=[dict(fam="acc", iters=12000, shards=16), dict(fam="pool", iters=60, hist=10, shards=8)], mc=[("MCLazy", "MCLazy_thorough.cfg")],
                             defs=["MCLazyDef_quick.cfg", "MCLazyDef_quick2.cfg", "MCLazyDef_thorough.cfg"])},
    "C14": {"quick": dict(runs=[dict(fam="pool", iters=120, hist=60, shards=4)],
                          mc=[("MCLazyPool", "MCLazyPool_seq_max1.cfg"), ("MCLazyPool", "MCLazyPool_seq_zero_max2.cfg")],
                          expect_violation=[("MCLazyPool", "MCLazyPool_asfound.cfg", "NoPanic"), ("MCLazyPool", "MCLazyPool_asfound_filter.cfg", "NoPanic"),
                                            ("MCLazyPool", "MCLazyPool_staleclose.cfg", "Exclusive")]),
            "thorough": dict(runs=[dict(fam="pool", iters=3000, hist=80, shards=16)],
                             mc=[("MCLazyPool", c) for c in SEQ_CFGS],
                             expect_violation=[("MCLazyPool", "MCLazyPool_asfound.cfg", "NoPanic"), ("MCLazyPool", "MCLazyPool_asfound_filter.cfg", "NoPanic"),
                                               ("MCLazyPool", "MCLazyPool_notrunc.cfg", "Isolation"), ("MCLazyPool", "MCLazyPool_staleclose.cfg", "Exclusive")])},
    "C15": {"quick": dict(runs=[dict(fam="conc", iters=150, g=8, procs=4, race=True, shards=8),
                                dict(fam="conc", iters=30, g=64, procs=16, race=True, shards=8),
                                dict(fam="own", iters=150, g=8, procs=2, shards=8)],
                          mc=[("MCLazyPool", "MCLazyPool_conc2.cfg"), ("MCLazyPool", "MCLazyPool_refine.cfg")], tlaps=True),
            "thorough": dict(runs=[dict(fam="conc", iters=3000, g=8, procs=16, race=True, shards=16),
                                   dict(fam="conc", iters=1500, g=64, procs=16, race=True, shards=16),
                                   dict(fam="conc", iters=3000, g=2, procs=1, race=True, shards=16),
                                   dict(fam="conc", iters=3000, g=16, procs=2, race=True, shards=16),
                                   dict(fam="own", iters=3000, g=8, procs=16, shards=16),
                                   dict(fam="own", iters=1000, g=64, procs=2, shards=16)],
                             mc=[("MCLazyPool", "MCLazyPool_conc2.cfg"), ("MCLazyPool", "MCLazyPool_conc3.cfg"), ("MCLazyPool", "MCLazyPool_conc3big.cfg"),
                                 ("MCLazyPool", "MCLazyPool_refine.cfg")], tlaps=True)},
}

RULES = {
    "C13": "one case = one accessor / nested lookup / Range call on a result decoded from a random message (value tree rendered with protowire; "
           "1 in 6 mutated) under a random definition, through the Decode function or a Decoder with random options; distinct = distinct "
           "(message, definition, call, path); non-trivial = the addressed tag is declared and present in the message; plus one case per step of every "
           "Def builder script TLC enumerates (Tags / NestedTag on the root or a nested handle, valid / negative / invalid tags): structure, Get, Validate "
           "and NewDecoder acceptance (also with invalid options) compared with LazyDef",
    "C14": "one case = one operation of a random history (Decode, accessor, NestedResult(s), Range, Close, stability check) on one pooled Decoder "
           "per option combination (mode x max buffer {none,0,1,2,64} x filter {none,halve,zero}); distinct = distinct (options, history prefix "
           "hash, call); non-trivial = the result object was handed out by the pool before (reuse) or the call reads a present tag",
    "C15": "one case = one call made by one of G goroutines sharing a Decoder (decode/read/nested/close on its own inputs), recorded per goroutine "
           "under the race detector, plus globally sequenced pool get/put events stamped inside the verif hook; distinct = distinct (goroutine, "
           "input, call); non-trivial = reads a present tag or is an ownership event",
}


def run_family(prop, scratch, r, seed, verdicts, stats):
    race = r.get("race", False)
    binp = V.build_harness(scratch, "lazy", race=race)
    outp = scratch.path("tr-%s-%d" % (prop, stats.setdefault("runs", 0)))
    stats["runs"] += 1
    args = [binp, "-fam", r["fam"], "-seed", str(seed), "-iters", str(r["iters"]), "-shards", str(r.get("shards", 1)), "-out", outp]
    for k in ("hist", "g", "procs"):
        if k in r:
            args += ["-" + k, str(r[k])]
    extra = {}
    racelog = scratch.path("race-%d" % stats["runs"])
    if race:
        extra["GORACE"] = "log_path=%s halt_on_error=0 exitcode=0" % racelog
    p = V.run(args, timeout=3600, extra_env=extra)
    info = json.loads(p.stdout.strip().splitlines()[-1])
    stats["events"] = stats.get("events", 0) + info["events"]
    stats["reuse"] = stats.get("reuse", 0) + info.get("reuse", 0)
    files = sorted(glob.glob(outp + ".*.ndjson"))
    if race:
        stats["race_runs"] = stats.get("race_runs", 0) + 1
        reports = glob.glob(racelog + "*")
        if reports:
            txt = "".join(open(x).read() for x in reports)
            if "github.com/CrowdStrike/csproto" not in txt:
                raise V.Inconclusive("the race detector reported a race that does not involve csproto code (harness defect):\n" + txt[:1500])
            with open(files[0], "a") as f:
                f.write(json.dumps(race_event(txt[:1500])) + "\n")
    results = V.tlc_trace(scratch, "TraceLazy", "TraceLazy.cfg", files, label="tv-%s-%d" % (prop, stats["runs"]))
    seen = stats.setdefault("seen", set())
    nontrivial = stats.setdefault("nontrivial", set())
    samples = stats.setdefault("samples", [])
    for tf, res in results:
        events = V.load_events(tf)
        if res["n"] != len(events):
            raise V.Inconclusive("trace %s: TLC consumed %d of %d events" % (tf, res["n"], len(events)))
        if res["desync"]:
            raise V.Inconclusive("trace %s: %d desynchronised events, first: %s" % (tf, len(res["desync"]), json.dumps(events[res["desync"][0] - 1])[:500]))
        ctx = {}      # handle -> (entry, empty input)
        grp = 0
        for i, e in enumerate(events):
            c = e["c"]
            if c == "reset":
                ctx = {}
                grp += 1
                stats["traces"] = stats.get("traces", 0) + 1
            elif c == "decode":
                ctx[e["h"]] = (e["entry"], len(e["buf"]) == 0, hash(tuple(e["buf"])), e.get("ptr", 0))
            elif c == "nested":
                for h in e["hs"]:
                    ctx[h] = ctx.get(e["hp"], ("?", False, 0, 0))
            h = e["h"] if c in ("acc", "range", "close", "chk", "decode") else e.get("hp", 0)
            cx = ctx.get(h, ("", False, 0, 0))
            key = hash((cx[2], c, e["acc"], tuple(e["path"]), e["tag"], e["all"], e["g"], e["opt"], e.get("ptr", 0), e.get("seq", 0)))
            seen.add(key)
            if (c in ("acc",) and e["st"] == "ok") or c in ("get", "put") or (c == "nested" and e["st"] == "ok") or (c == "decode" and e["st"] == "ok" and e["ptr"]):
                nontrivial.add(key)
        for k in (1, len(events) // 2, len(events) - 1):
            if len(samples) < 6 and len(events) > k:
                e = events[k]
                samples.append({f: v for f, v in e.items() if v not in ([], "", 0, {"tags": [], "nested": []}) or f in ("c", "st")})
        # signatures for the flagged events
        ctx = {}
        flagged = set(res["bad"])
        start = 0
        for i, e in enumerate(events):
            c = e["c"]
            if c == "reset":
                ctx = {}
                start = i
            elif c == "decode":
                ctx[e["h"]] = (e["entry"], len(e["buf"]) == 0)
            elif c == "nested":
                for h in e["hs"]:
                    ctx[h] = ctx.get(e["hp"], ("?", False))
            if (i + 1) in flagged:
                h = e["h"] if c in ("acc", "range", "close", "chk", "decode") else e.get("hp", 0)
                cx = ctx.get(h, ("", False))
                sig = {"c": c, "acc": e["acc"], "st": e["st"], "entry": cx[0], "empty_input": cx[1], "kind": "unexplained"}
                verdicts.fail(sig, {"property": prop, "family": "lazy", "events": events[start:i + 1], "observed": e,
                                    "harness_args": args[1:]}, "%d-%d" % (stats.get("nfail", 0), i + 1))
                stats["nfail"] = stats.get("nfail", 0) + 1


RE_DEFOP = re.compile(r'<<\s*"(tags|nested)"\s*,\s*(-?\d+)\s*,\s*(-?\d+)\s*,\s*(-?\d+)\s*,\s*(-?\d+)\s*,\s*(-?\d+)\s*>>')


def run_defs(prop, scratch, cfgs, verdicts, stats, mcs):
    """Def builder scripts: TLC enumerates them (MCLazyDef), the harness replays them on the real lazyproto.Def, TraceLazyDef judges."""
    binp = V.build_harness(scratch, "lazy")
    for cfg in cfgs:
        m = V.tlc_mc(scratch, "MCLazyDef", cfg, workers=1)
        mcs.append(m)
        log = open(os.path.join(scratch.dir, "mc-" + cfg.replace(".cfg", ""), "tlc.log")).read()
        scripts = []
        for chunk in log.split('"DEFSCRIPT"')[1:]:
            ops = RE_DEFOP.findall(chunk.split("<< \"DEFSCRIPT")[0])
            if ops:
                scripts.append(";".join(" ".join(o) for o in ops))
        if not scripts:
            raise V.Inconclusive("TLC emitted no Def scripts for %s" % cfg)
        sf = scratch.path("defscripts-%s.txt" % cfg.replace(".cfg", ""))
        with open(sf, "w") as f:
            f.write("\n".join(scripts) + "\n")
        outp = scratch.path("tr-def-%s" % cfg.replace(".cfg", ""))
        args = [binp, "-fam", "def", "-scripts", sf, "-shards", "8", "-out", outp]
        p = V.run(args, timeout=1800)
        info = json.loads(p.stdout.strip().splitlines()[-1])
        stats["events"] = stats.get("events", 0) + info["events"]
        stats["def_scripts"] = stats.get("def_scripts", 0) + len(scripts)
        files = sorted(glob.glob(outp + ".*.ndjson"))
        for tf, res in V.tlc_trace(scratch, "TraceLazyDef", "TraceLazyDef.cfg", files, label="tv-def-" + cfg.replace(".cfg", "")):
            events = V.load_events(tf)
            if res["n"] != len(events):
                raise V.Inconclusive("trace %s: TLC consumed %d of %d events" % (tf, res["n"], len(events)))
            if res["desync"]:
                raise V.Inconclusive("def trace desynchronised: %s" % json.dumps(events[res["desync"][0] - 1])[:400])
            start = 0
            for i, e in enumerate(events):
                if e["c"] == "defnew":
                    start = i
                    stats["traces"] = stats.get("traces", 0) + 1
                    continue
                key = hash(json.dumps([[x["kind"], x["h"], x["t"], x["nts"]] for x in events[start + 1:i + 1]]))
                stats.setdefault("seen", set()).add(key)
                stats.setdefault("nontrivial", set()).add(key)
                if (i + 1) in set(res["bad"]):
                    sig = {"c": "defop", "kind": e["kind"], "st": e["st"], "valid": e["valid"], "ndec": e["ndec"]}
                    verdicts.fail(sig, {"property": prop, "family": "def", "script": events[start:i + 1], "observed": e}, "def-%d-%d" % (stats.get("nfail", 0), i + 1))
                    stats["nfail"] = stats.get("nfail", 0) + 1


def race_event(note):
    return {"c": "race", "h": 0, "hp": 0, "hs": [], "buf": [], "def": {"tags": [], "nested": []}, "mode": 0, "entry": "", "acc": "", "tag": 0,
            "all": 0, "path": [], "st": "race", "val": [], "vals": [], "rng": [], "eq": 0, "ptr": 0, "g": 0, "seq": 0, "ncl": 0, "nilcl": 0,
            "dl": [], "opt": "", "note": note}


def tlc_expect_violation(scratch, module, cfg, inv):
    """A configuration that documents a design-level finding: TLC must find the violation."""
    d = scratch.sub("mcx-" + cfg.replace(".cfg", ""))
    V.stage_specs(d, cfg)
    p = V.run(["tlc", "-workers", "4", "-metadir", os.path.join(d, "md"), "-config", cfg, module + ".tla"], cwd=d, timeout=600, check=False,
              extra_env={"JAVA_TOOL_OPTIONS": "-Xss512m -Djava.io.tmpdir=%s" % d})
    out = p.stdout or ""
    if ("Invariant %s is violated" % inv) not in out:
        raise V.Inconclusive("expected-violation configuration %s did not violate %s" % (cfg, inv))
    return cfg


def check(prop, tier, seed, replay_path=None, selftest=False, keep=False):
    t0 = time.time()
    scratch = V.Scratch(keep)
    verdicts = V.Verdicts(prop)
    stats = {}
    try:
        if replay_path:
            rp = json.load(open(replay_path))
            # histories depend on the pool's choices: re-run the recording with the stored arguments
            args = rp.get("harness_args", [])
            r = dict(fam=args[args.index("-fam") + 1], iters=int(args[args.index("-iters") + 1]), shards=1)
            for k in ("hist", "g", "procs"):
                if "-" + k in args:
                    r[k] = int(args[args.index("-" + k) + 1])
            sd = int(args[args.index("-seed") + 1])
            run_family(prop, scratch, r, sd, verdicts, stats)
            rc = verdicts.finish()
            print("replay: %d events re-recorded, %s" % (stats.get("events", 0), "violation reproduced" if rc else "no violation"))
            return rc
        cfg = TIERS[prop][tier]
        mcs = [V.tlc_mc(scratch, m, c, timeout=2400) for m, c in cfg["mc"]]
        for m in mcs:
            V.log("TLC %s/%s: %d distinct states, %d transitions, %.0fs" % (m["module"], m["cfg"], m["states"], m["transitions"], m["seconds"]))
        expected = [tlc_expect_violation(scratch, m, c, inv) for m, c, inv in cfg.get("expect_violation", [])]
        tlaps = None
        if cfg.get("tlaps"):
            # LazyPool refines the ownership protocol (TLC, MCLazyPool_refine.cfg: property AbsSpec); the protocol is safe for any number of
            # goroutines and objects (TLAPS)
            tlaps = V.tlaps_prove(scratch, "OwnershipProof", ["Ownership.tla"],
                                  "Spec => [](Disjoint /\\ NotPooled /\\ Conserved) for every G in Nat and every set of objects")
        for r in cfg["runs"]:
            run_family(prop, scratch, r, seed, verdicts, stats)
        if cfg.get("defs"):
            run_defs(prop, scratch, cfg["defs"], verdicts, stats, mcs)
        if prop == "C14" and stats.get("reuse", 0) == 0:
            raise V.Inconclusive("no pooled result object was ever reused during the recorded histories")
        rc = verdicts.finish()
        cov = {
            "states": sum(m["states"] for m in mcs), "transitions": sum(m["transitions"] for m in mcs),
            "traces_validated_against_impl": stats.get("traces", 0),
            "evaluations": stats["events"], "distinct_nontrivial": len(stats["nontrivial"]), "distinct_cases": len(stats["seen"]),
            "rule": RULES[prop], "samples": stats["samples"], "exhaustive": False,
            "pool_reuses_observed": stats.get("reuse", 0), "tlc_generated_def_scripts": stats.get("def_scripts", 0),
            "race_detector_runs": stats.get("race_runs", 0),
            "expected_violation_configs": expected, "tlaps": tlaps,
            "explanation": "TLC model checking: " + "; ".join("%s/%s %d states %d transitions" % (m["module"], m["cfg"], m["states"], m["transitions"]) for m in mcs)
                           + ". Every recorded event judged by TraceLazy against the reference parse of the handle's own input.",
            "known_findings_fired": sorted(verdicts.known_hits),
        }
        assumptions = ["harness value conversion (internal/tr) and error classification (errors.Is / errors.As on lazyproto's exported errors)",
                       "well-formed histories: a result is closed at most once and not used after Close (documented life cycle)"]
        if prop == "C15":
            assumptions.append("'free of data races' is read from the Go race detector (harness built with -race, no synchronisation added between library calls); "
                               "ownership events are stamped with an atomic counter inside the verif hook")
        V.write_evidence(prop, tier, seed, "model_checking", cov, assumptions, time.time() - t0, len(verdicts.violations))
        return rc
    finally:
        scratch.cleanup()
