"""C01, C02, C03, C19: the hand-written codec (encoder.go, decoder.go, sizeof.go).

Pipeline per property:  TLC model checking of the specification (MCDecoder: implementation-shaped
model refines the requirement spec on the bounded domain; MCRoundTrip: the spec is closed under the
encode/decode round trip)  ->  the Go harness records traces from the real code rebuilt from /repo
->  TLC validates every recorded event against the requirement specification (TraceCodec).
"""
import json
import os
import time

import vflib as V

TIERS = {
    # family arguments per property and tier
    "C01": {"quick": dict(fams="rt,prim", iters=1500, shards=4, mc=[("MCRoundTrip", "MCRoundTrip_quick.cfg")]),
            "thorough": dict(fams="rt,prim", iters=30000, shards=16, thorough=True, mc=[("MCRoundTrip", "MCRoundTrip_thorough.cfg")])},
    "C02": {"quick": dict(fams="ref,skip", iters=1500, shards=4, mc=[("MCRoundTrip", "MCRoundTrip_quick.cfg"), ("MCDecoder", "MCDecoder_quick.cfg")]),
            "thorough": dict(fams="ref,skip", iters=30000, shards=16, thorough=True,
                             mc=[("MCRoundTrip", "MCRoundTrip_thorough.cfg"), ("MCDecoder", "MCDecoder_quick.cfg")])},
    "C03": {"quick": dict(fams="dom,seq", iters=3000, shards=8, alphabet="0,1,2,8,10,127,128,255", maxlen=3,
                          mc=[("MCDecoder", "MCDecoder_quick.cfg")]),
            "thorough": dict(fams="dom,seq", iters=60000, shards=16, alphabet="0,1,2,4,8,9,10,13,127,128,255", maxlen=4,
                             mc=[("MCDecoder", "MCDecoder_thorough.cfg")])},
    "C19": {"quick": dict(fams="nest", iters=0, shards=1, mc=[("MCDecoder", "MCDecoder_quick.cfg")]),
            "thorough": dict(fams="nest", iters=0, shards=1, thorough=True, mc=[("MCDecoder", "MCDecoder_quick.cfg")])},
}

RULES = {
    "C01": "one case = (kind, packed?, field number, value[s]) encoded into a buffer sized by the size helpers and decoded back in both "
           "decoder modes, plus bare size-helper calls; distinct = distinct (kind, packed, fn, value) tuples; non-trivial = everything "
           "except the empty packed list (nothing is written)",
    "C02": "one case = (kind, packed?, field number, value[s]) encoded by csproto and by protowire, each decoded by csproto, plus "
           "DecodeTag/Skip walks over random well-formed field sequences; distinct = distinct argument tuples / distinct buffers; "
           "non-trivial = the field or buffer is not empty",
    "C03": "one case = one decoder call (op, args) in a decoder state (buffer, offset, mode): exhaustive over the bounded domain shared "
           "with MCDecoder plus random/mutated long inputs with random call sequences; distinct = distinct (buffer, offset, mode, op, "
           "args); non-trivial = the cursor is not at the end of the buffer (where every read trivially fails)",
    "C19": "one case = EncodeNested/DecodeNested of one nested message (flavour, value, position, failing stub) or one "
           "EncodeRaw/EncodeMapEntryHeader call; distinct = distinct (flavour, field number, bytes, position); non-trivial = all",
}


def sig_of(e, cls):
    return {"c": e["c"], "op": e["op"], "k": e["k"], "st": e["st"], "kind": cls}


def group_for(events, idx):
    """events around the failing event idx (0-based): from the preceding 'new' (or the event itself)."""
    e = events[idx]
    if e["c"] != "dec" and e["c"] != "cat":
        return [e]
    j = idx
    while j > 0 and events[j]["c"] != "new":
        j -= 1
    return events[j:idx + 1]


def case_key(e):
    if e["c"] == "dec":
        return ("dec", e["op"], e["p"], e["mode"], e["fn"], e["wt"], e["i1"], e["i2"])
    if e["c"] == "enc":
        return ("enc", e["k"], e["i1"], e["fn"], json.dumps(e["a"]), json.dumps(e["as"]), e["hx"])
    return (e["c"], e["k"], e["fn"], e["i1"], e["i2"], json.dumps(e["a"]))


def crash_verdict(prop, scratch, binp, intent, output, verdicts):
    """The harness process died.  If it died inside the library (a fatal runtime error such as out of memory cannot be recovered
    in-process), the call that was in flight is in the intent file: repeat exactly that call in a child process; when the child
    dies too the crash is the reproduced outcome of that call and TLC judges it like any other outcome.  Anything else is a
    failure of the machinery (exit 2)."""
    died_in_library = "fatal error:" in output or "panic:" in output
    if not died_in_library or not os.path.exists(intent) or os.path.getsize(intent) == 0:
        raise V.Inconclusive("the codec harness failed:\n" + output[-2000:])
    rp = json.load(open(intent))
    outp = scratch.path("tr-%s-crash" % prop)
    for attempt in range(2):
        c = V.run([binp, "-replay", intent, "-shards", "1", "-out", outp + "-%d" % attempt], timeout=300, check=False)
        if c.returncode == 0 or not ("fatal error:" in (c.stdout or "") or "panic:" in (c.stdout or "")):
            raise V.Inconclusive("the codec harness died (%s) but the call in flight does not reproduce the crash in a child process:\n%s"
                                 % (output.strip().splitlines()[0][:200] if output.strip() else "?", json.dumps(rp["events"][-1])[:400]))
    reason = next((l for l in output.splitlines() if l.startswith("fatal error:") or l.startswith("panic:")), "crash")
    ev = rp["events"]
    ev[-1]["st"] = "crash"
    ev[-1]["note"] = "the process died in this call, twice more when the call was repeated alone in a child process: " + reason
    tf = scratch.path("crash-%s.ndjson" % prop)
    with open(tf, "w") as f:
        for e in ev:
            f.write(json.dumps(e) + "\n")
    for _, r in V.tlc_trace(scratch, "TraceCodec", "TraceCodec.cfg", [tf], label="tv-%s-crash" % prop):
        if r["n"] != len(ev):
            raise V.Inconclusive("TLC consumed %d of %d crash events" % (r["n"], len(ev)))
        for i in r["bad"]:
            verdicts.fail(sig_of(ev[i - 1], "process-crash"), {"property": prop, "family": "codec", "events": ev, "observed": ev[i - 1]}, "crash-%d" % i)
        if not r["bad"]:
            raise V.Inconclusive("the specification explains a process crash?")


def run_traces(prop, scratch, harness_args, verdicts, stats, replay=False):
    binp = V.build_harness(scratch, "codec")
    outp = scratch.path("tr-" + prop)
    intent = scratch.path("intent-%s.json" % prop)
    p = V.run([binp] + harness_args + ["-out", outp, "-intent", intent], timeout=3600, check=False)
    if p.returncode != 0:
        crash_verdict(prop, scratch, binp, intent, p.stdout or "", verdicts)
        stats.setdefault("events", 0)
        stats["events"] += 2
        stats.setdefault("seen", set()).add(hash("crash"))
        stats.setdefault("nontrivial", set()).add(hash("crash"))
        stats.setdefault("samples", [])
        stats["crashed"] = True
        return []
    info = json.loads(p.stdout.strip().splitlines()[-1])
    files = sorted(f for f in (os.path.join(scratch.dir, x) for x in os.listdir(scratch.dir)) if f.startswith(outp + ".") and f.endswith(".ndjson"))
    results = V.tlc_trace(scratch, "TraceCodec", "TraceCodec.cfg", files, label="tv-" + prop)
    stats.setdefault("events", 0)
    stats["events"] += info["events"]
    seen = stats.setdefault("seen", set())
    nontrivial = stats.setdefault("nontrivial", set())
    samples = stats.setdefault("samples", [])
    for tf, r in results:
        events = V.load_events(tf)
        if r["n"] != len(events):
            raise V.Inconclusive("trace %s: TLC consumed %d of %d events" % (tf, r["n"], len(events)))
        stats["traces"] = stats.get("traces", 0) + sum(1 for e in events if e["c"] in ("new",)) + (1 if events and events[0]["c"] != "new" else 0)
        stats["drift"] = stats.get("drift", 0) + len(r["drift"])
        if r["desync"]:
            raise V.Inconclusive("trace %s: %d desynchronised/malformed events (harness or reference disagrees with the "
                                 "specification), first: %s" % (tf, len(r["desync"]), json.dumps(events[r["desync"][0] - 1])[:600]))
        cur = None
        for e in events:
            if e["c"] == "new":
                cur = tuple(e["buf"])
                continue
            key = (cur if e["c"] in ("dec", "cat") else None,) + case_key(e)
            h = hash(key)
            seen.add(h)
            trivial = (e["c"] == "dec" and cur is not None and e["p"] >= len(cur)) or (e["c"] == "enc" and e["i1"] == 1 and not e["as"])
            if not trivial:
                nontrivial.add(h)
        for k in (0, len(events) // 2, len(events) - 1):
            if len(samples) < 6 and events:
                e = events[k]
                samples.append({f: v for f, v in e.items() if v not in ([], "", 0) or f in ("c", "st")})
        for i in r["bad"]:
            e = events[i - 1]
            verdicts.fail(sig_of(e, "unexplained"), {"property": prop, "family": "codec", "events": group_for(events, i - 1),
                                                     "observed": e}, "%d-%d" % (stats.get("nfail", 0), i))
            stats["nfail"] = stats.get("nfail", 0) + 1
    return results


def check(prop, tier, seed, replay_path=None, selftest=False, keep=False):
    t0 = time.time()
    scratch = V.Scratch(keep)
    verdicts = V.Verdicts(prop)
    stats = {}
    try:
        if replay_path:
            run_traces(prop, scratch, ["-replay", replay_path], verdicts, stats)
            rc = verdicts.finish()
            print("replay: %d events re-executed, %s" % (stats.get("events", 0), "violation reproduced" if rc else "no violation"))
            return rc
        cfg = TIERS[prop][tier]
        mcs = []
        for module, c in cfg["mc"]:
            mcs.append(V.tlc_mc(scratch, module, c))
            V.log("TLC %s/%s: %d distinct states, %d transitions, %.0fs" % (module, c, mcs[-1]["states"], mcs[-1]["transitions"], mcs[-1]["seconds"]))
        args = ["-fam", cfg["fams"], "-seed", str(seed), "-iters", str(cfg["iters"]), "-shards", str(cfg["shards"])]
        if cfg.get("thorough"):
            args.append("-thorough")
        if "alphabet" in cfg:
            args += ["-alphabet", cfg["alphabet"], "-maxlen", str(cfg["maxlen"])]
        run_traces(prop, scratch, args, verdicts, stats)
        if selftest:
            return selftest_codec(prop, scratch)
        rc = verdicts.finish()
        cov = {
            "states": sum(m["states"] for m in mcs), "transitions": sum(m["transitions"] for m in mcs),
            "traces_validated_against_impl": stats.get("traces", 0),
            "evaluations": stats["events"], "distinct_nontrivial": len(stats["nontrivial"]), "distinct_cases": len(stats["seen"]),
            "rule": RULES[prop], "samples": stats["samples"],
            "exhaustive": prop == "C03",
            "explanation": "TLC model checking: " + "; ".join("%s/%s %d states %d transitions depth %d" % (m["module"], m["cfg"], m["states"], m["transitions"], m["depth"]) for m in mcs)
                           + ". Trace validation: every recorded event judged by TraceCodec (requirement-level Explains* operators); "
                           + "%d events differed from the implementation-shaped model DecoderImpl (drift, diagnostic only)." % stats.get("drift", 0),
            "model_drift_events": stats.get("drift", 0),
            "known_findings_fired": sorted(verdicts.known_hits),
        }
        V.write_evidence(prop, tier, seed, "model_checking", cov, [
            "the Go harness converts values to base-128 digit / byte vectors (internal/tr: Word, LE32, LE64) - trusted, 20 lines",
            "TLC's evaluation of the TLA+ operators; the specification was cross-checked against protowire on every 'ref' event (a disagreement aborts the run as inconclusive)",
            "allocation is measured with runtime.ReadMemStats around each decoder call (single goroutine)",
        ], time.time() - t0, len(verdicts.violations))
        return rc
    finally:
        scratch.cleanup()


def selftest_codec(prop, scratch):
    """Demonstrate the binding: corrupt one recorded field of one event and require TLC to reject it."""
    import copy
    # pick the first validated trace directory
    tv = [d for d in os.listdir(scratch.dir) if d.startswith("tv-")]
    d = os.path.join(scratch.dir, sorted(tv)[0])
    events = V.load_events(os.path.join(d, "trace.ndjson"))
    target = None
    for i, e in enumerate(events):
        if e["st"] == "ok" and (e["c"] == "dec" and e["op"] not in ("More", "Offset", "Reset", "SetMode", "Seek") or e["c"] in ("enc", "encn")):
            target = i
            break
    if target is None:
        raise V.Inconclusive("selftest: no event to corrupt")
    ev = copy.deepcopy(events)
    ev[target]["off"] += 1      # the logged post-offset is wrong by one
    sd = scratch.sub("selftest")
    tf = os.path.join(sd, "t.ndjson")
    with open(tf, "w") as f:
        for e in ev:
            f.write(json.dumps(e) + "\n")
    res = V.tlc_trace(scratch, "TraceCodec", "TraceCodec.cfg", [tf], label="st-" + prop)
    bad = res[0][1]["bad"] + res[0][1]["desync"]
    if (target + 1) in bad:
        print("selftest ok: corrupted event %d rejected" % (target + 1))
        return 0
    print("selftest FAILED: corrupted event %d was accepted" % (target + 1))
    return 2
